----------------------------- MODULE BoolOpsAbs -----------------------------
(***************************************************************************)
(* Layer P, abstract: the library as a state machine over call histories   *)
(* in a finite universe of cells.  A value is the set of cells it covers   *)
(* (its REGION - what every law of BoolOps.tla is about once geometry is   *)
(* abstracted away); `Call` binds a new name to the region the contract    *)
(* C01 demands.  TLC explores every history of bounded length over every   *)
(* choice of operands and checks that the relational laws C05..C09, C11,   *)
(* C12 are CONSEQUENCES of that contract - i.e. that the set of laws the   *)
(* trace specification enforces is consistent (no law can reject a         *)
(* behaviour the contract allows) and not vacuous (the coverage counters   *)
(* show each law's antecedent is reached).  `Buggy` is a deliberately      *)
(* wrong contract (difference computed as xor when a far part is present)  *)
(* used by the self-test to show that the laws do reject something.        *)
(***************************************************************************)
EXTENDS Integers, Sequences, FiniteSets, TLC

CONSTANTS Cells,      \* the near universe, e.g. 1..3
          Far,        \* one far cell (disjoint from everything near)
          MaxCalls,   \* bound on the history length
          Buggy       \* TRUE: the deliberately wrong contract

Ops == {"int", "union", "diff", "xor"}
All == Cells \cup {Far}
Regions == SUBSET All

InOpS(op, a, b) == CASE op = "int" -> a \cap b [] op = "union" -> a \cup b
                     [] op = "diff" -> a \ b [] op = "xor" -> (a \ b) \cup (b \ a)
Contract(op, a, b) == IF Buggy /\ op = "diff" /\ Far \in a THEN InOpS("xor", a, b) ELSE InOpS(op, a, b)

VARIABLES env,    \* sequence of values: [reg, kind, of]  (kind: base | rewrite | farpart | result)
          log     \* sequence of calls: [op, x, y, res]  (indices into env)
vars == <<env, log>>
R0(i) == env[i].reg

Init == /\ \E a \in SUBSET Cells : \E b \in SUBSET Cells :
             env = << [reg |-> a, kind |-> "base", of |-> 0], [reg |-> b, kind |-> "base", of |-> 0] >>
        /\ log = <<>>

\* a re-presentation of an operand: same region, different name
Rewrite == /\ Len(env) < 4 /\ log = <<>>
           /\ \E i \in 1..Len(env) : env[i].kind = "base"
                 /\ env' = Append(env, [reg |-> env[i].reg, kind |-> "rewrite", of |-> i])
           /\ UNCHANGED log
\* the operand plus a far part
AddFar == /\ Len(env) < 4 /\ log = <<>>
          /\ \E i \in 1..Len(env) : env[i].kind = "base" /\ Far \notin env[i].reg
                /\ env' = Append(env, [reg |-> env[i].reg \cup {Far}, kind |-> "farpart", of |-> i])
          /\ UNCHANGED log
Call == /\ Len(log) < MaxCalls
        /\ \E op \in Ops : \E x \in 1..Len(env) : \E y \in 1..Len(env) :
              /\ env' = Append(env, [reg |-> Contract(op, env[x].reg, env[y].reg), kind |-> "result", of |-> 0])
              /\ log' = Append(log, [op |-> op, x |-> x, y |-> y, res |-> Len(env) + 1])
\* the five results of one operand pair in one step (for C05)
Five == /\ log = <<>>
        /\ \E x \in 1..Len(env) : \E y \in 1..Len(env) :
              LET n == Len(env)
                  rs == << Contract("int", R0(x), R0(y)), Contract("union", R0(x), R0(y)), Contract("diff", R0(x), R0(y)),
                           Contract("diff", R0(y), R0(x)), Contract("xor", R0(x), R0(y)) >>
              IN /\ env' = env \o [k \in 1..5 |-> [reg |-> rs[k], kind |-> "result", of |-> 0]]
                 /\ log' = << [op |-> "int", x |-> x, y |-> y, res |-> n+1], [op |-> "union", x |-> x, y |-> y, res |-> n+2],
                              [op |-> "diff", x |-> x, y |-> y, res |-> n+3], [op |-> "diff", x |-> y, y |-> x, res |-> n+4],
                              [op |-> "xor", x |-> x, y |-> y, res |-> n+5] >>
Next == Rewrite \/ AddFar \/ Call \/ Five
Spec == Init /\ [][Next]_vars

R(i) == env[i].reg
Cls(i) == IF env[i].kind = "rewrite" THEN env[i].of ELSE i
Calls == {log[k] : k \in 1..Len(log)}

\* ---- the relational laws, on regions ----
C05_Partition ==
  (Len(log) = 5 /\ log[1].op = "int" /\ log[2].op = "union" /\ log[3].op = "diff" /\ log[4].op = "diff" /\ log[5].op = "xor"
     /\ log[4].x = log[3].y /\ log[4].y = log[3].x) =>
    LET i == log[1] u == log[2] d1 == log[3] d2 == log[4] xr == log[5] IN
      /\ R(i.res) \cap R(d1.res) = {} /\ R(i.res) \cap R(d2.res) = {} /\ R(d1.res) \cap R(d2.res) = {}
      /\ R(i.res) \cup R(d1.res) \cup R(d2.res) = R(u.res)
      /\ R(xr.res) = R(d1.res) \cup R(d2.res)
      /\ Cardinality(R(i.res)) + Cardinality(R(u.res)) = Cardinality(R(u.x)) + Cardinality(R(u.y))
      /\ Cardinality(R(xr.res)) = Cardinality(R(u.res)) - Cardinality(R(i.res))
      /\ Cardinality(R(d1.res)) = Cardinality(R(u.x)) - Cardinality(R(i.res))
C06_Commutes == \A c \in Calls : \A d \in Calls :
                  (c.op = d.op /\ c.op # "diff" /\ c.x = d.y /\ c.y = d.x) => R(c.res) = R(d.res)
C06_Self == \A c \in Calls : c.x = c.y => R(c.res) = (IF c.op \in {"int", "union"} THEN R(c.x) ELSE {})
C06_Empty == \A c \in Calls :
               /\ R(c.y) = {} => R(c.res) = (IF c.op = "int" THEN {} ELSE R(c.x))
               /\ R(c.x) = {} => R(c.res) = (IF c.op \in {"int", "diff"} THEN {} ELSE R(c.y))
C07_RepresentationInvariant == \A c \in Calls : \A d \in Calls :
                  (c.op = d.op /\ Cls(c.x) = Cls(d.x) /\ Cls(c.y) = Cls(d.y)) => R(c.res) = R(d.res)
C09_FarPartLocal == \A c \in Calls : \A d \in Calls :
   (c.op = d.op) =>
     /\ (env[c.x].kind = "farpart" /\ env[c.x].of = d.x /\ c.y = d.y /\ Far \notin R(c.y)) =>
           R(c.res) = R(d.res) \cup (IF c.op = "int" THEN {} ELSE {Far})
     /\ (env[c.y].kind = "farpart" /\ env[c.y].of = d.y /\ c.x = d.x /\ Far \notin R(c.x)) =>
           R(c.res) = R(d.res) \cup (IF c.op \in {"int", "diff"} THEN {} ELSE {Far})
\* chained calls obey the algebra pointwise: evaluate the expression of every value over the bases
RECURSIVE Eval(_, _)
Eval(i, cell) == IF env[i].kind # "result" THEN cell \in R(i)
                 ELSE LET c == CHOOSE c \in Calls : c.res = i
                          a == Eval(c.x, cell)  b == Eval(c.y, cell)
                      IN CASE c.op = "int" -> a /\ b [] c.op = "union" -> a \/ b [] c.op = "diff" -> a /\ ~b [] c.op = "xor" -> a # b
C11_ChainedAlgebra == \A i \in 1..Len(env) : \A cell \in All : (cell \in R(i)) = Eval(i, cell)
C12_Deterministic == \A c \in Calls : \A d \in Calls : (c.op = d.op /\ c.x = d.x /\ c.y = d.y) => R(c.res) = R(d.res)
\* the named instances of the statement of C11
C11_Examples == \A c \in Calls : \A d \in Calls :
   /\ (c.op = "union" /\ d.op = "diff" /\ d.x = c.res /\ d.y = c.y) => R(d.res) = R(c.x) \ R(c.y)      \* (A u B) - B = A - B
   /\ (c.op = "diff" /\ d.op = "diff" /\ d.x = c.x /\ d.y = c.res) => R(d.res) = R(c.x) \cap R(c.y)     \* A - (A - B) = A n B
=============================================================================
