---------------------------- MODULE TracePIExact ----------------------------
(***************************************************************************)
(* C16 on FLOAT segments, decided exactly (FloatGeometry: integer          *)
(* arithmetic on the bit patterns).  Each record is one real call of       *)
(* possible_intersection on two segments a, b (left end first) given by    *)
(* their float coordinates, far outside the integer domain of MC_PI:       *)
(* coordinates up to 2^30 in arbitrary power-of-two frames, needles        *)
(* crossing at angles down to 2^-30, general crossings, exact T-touches,    *)
(* common end points, clearly disjoint pairs.  The specification           *)
(* classifies the pair from the four orientation signs (exactly), keeps    *)
(* only ROBUST configurations - every end point that is not ON the other   *)
(* segment's line is at least 2^(mexp-40) (2^12 units in the last place of  *)
(* the largest coordinate) away from it - and demands the clauses of the   *)
(* statement: code 0 and nothing touched iff the segments are disjoint or  *)
(* meet only in a common end point; a proper crossing splits BOTH segments *)
(* at one bit-identical point inside both boxes and within tolerance of     *)
(* both segments; an end point in the interior of the other segment splits *)
(* only that one, at exactly that end point.                               *)
(***************************************************************************)
EXTENDS FloatGeometry, TLC, Json, IOUtils
Recs == ndJsonDeserialize(IOEnv.TRACEFILE)
VARIABLES i, bad
vars == <<i, bad>>
Init == i \in 1..Len(Recs) /\ bad = {}

KR == 40      \* robustness margin: 2^(mexp - KR)
KT(F) == IF F = "f64" THEN 30 ELSE 16     \* tolerance of the split point, as in C04_F

Sign3(p, q, w, d) == IF FLineFar(p, q, w, d) THEN FOrient(p, q, w) ELSE (IF FOrient(p, q, w) = 0 THEN 0 ELSE 2)   \* 2 = too close to judge
\* p strictly inside the segment s (p is known to be ON its line): strictly between the end points in x, or in y for a vertical segment
Inside(p, s) == IF FCmp(s[1][1], s[2][1]) # 0 THEN FCmp(s[1][1], p[1]) * FCmp(p[1], s[2][1]) > 0
                ELSE FCmp(s[1][2], p[2]) * FCmp(p[2], s[2][2]) > 0
InBox(p, s) == /\ FCmp(s[1][1], p[1]) * FCmp(p[1], s[2][1]) >= 0
               /\ FCmp(s[1][2], p[2]) * FCmp(p[2], s[2][2]) >= 0
PtOf(e) == <<e[2], e[3]>>
\* equality of points and of point sets AS NUMBERS (-0.0 = 0.0): bit patterns are only compared where the
\* statement says "one and the same point" of the two segments
SameSet(S, T) == (\A p \in S : \E q \in T : FSamePt(p, q)) /\ (\A q \in T : \E p \in S : FSamePt(p, q))

\* verdict: "ok" | "fail" | "skip" (not a robust configuration: not judged, counted)
Verdict(r) ==
  LET a == r.a  b == r.b  d == r.mexp - KR
      o1 == Sign3(a[1], a[2], b[1], d)  o2 == Sign3(a[1], a[2], b[2], d)
      o3 == Sign3(b[1], b[2], a[1], d)  o4 == Sign3(b[1], b[2], a[2], d)
      honest == \A s \in {a, b} : \A k \in 1..2 : FAbsLeqPow2(s[k][1], r.mexp) /\ FAbsLeqPow2(s[k][2], r.mexp)
      untouched == r.code >= 0 /\ Len(r.pushed) = 0 /\ r.linked /\ r.aend = a[2] /\ r.bend = b[2]
      common == {p \in {a[1], a[2]} : \E q \in {b[1], b[2]} : FSamePt(p, q)}
      nothing == r.code = 0 /\ untouched
      newA == {PtOf(e) : e \in {x \in {r.pushed[k] : k \in 1..Len(r.pushed)} : x[1] = 1}}
      newB == {PtOf(e) : e \in {x \in {r.pushed[k] : k \in 1..Len(r.pushed)} : x[1] = 2}}
  IN IF ~honest THEN "harness"
     ELSE IF 2 \in {o1, o2, o3, o4} THEN "skip"
     ELSE IF o1 * o2 > 0 \/ o3 * o4 > 0 THEN (IF nothing THEN "ok" ELSE "fail")            \* one segment strictly on one side of the other: disjoint
     ELSE IF o1 * o2 < 0 /\ o3 * o4 < 0 THEN                                                \* proper crossing
          (IF /\ r.code = 1 /\ r.linked /\ Len(r.pushed) = 4
              /\ Cardinality(newA \cup newB) = 1 /\ newA # {} /\ newB # {}
              /\ \A p \in newA : /\ InBox(p, a) /\ InBox(p, b) /\ r.aend = p /\ r.bend = p
                                 /\ FNearSeg(a[1], a[2], p, r.mexp - KT(r.F)) /\ FNearSeg(b[1], b[2], p, r.mexp - KT(r.F))
           THEN "ok" ELSE "fail")
     ELSE IF {o1, o2, o3, o4} = {0} THEN "skip"                                             \* collinear: the integer domain (MC_PI) decides these
     ELSE IF common # {} THEN (IF untouched THEN "ok" ELSE "fail")                           \* meet only in a common end point
     ELSE LET onA == {p \in {b[1], b[2]} : FOrient(a[1], a[2], p) = 0 /\ Inside(p, a)}      \* end points of b inside a
              onB == {p \in {a[1], a[2]} : FOrient(b[1], b[2], p) = 0 /\ Inside(p, b)}
          IN IF onA = {} /\ onB = {} THEN (IF nothing THEN "ok" ELSE "fail")               \* an end point on the other's LINE beyond the segment: disjoint
             ELSE IF /\ r.code = 1 /\ r.linked /\ SameSet(newA, onA) /\ SameSet(newB, onB)
                     /\ Len(r.pushed) = 2 * (Cardinality(onA) + Cardinality(onB))
                     /\ (onA = {} => r.aend = a[2]) /\ (onB = {} => r.bend = b[2])
                     /\ \A p \in onA : FSamePt(r.aend, p)
                     /\ \A p \in onB : FSamePt(r.bend, p)
                  THEN "ok" ELSE "fail"

Judge == /\ i # 0 /\ i' = 0
         /\ LET r == Recs[i]  v == Verdict(r) IN
            /\ bad' = IF v \in {"fail", "harness"} THEN {v} ELSE {}
            /\ (v # "ok") => PrintT(<<"PIEXACT", v, r.id>>)
Done == i = 0 /\ UNCHANGED vars
Next == Judge \/ Done
Spec == Init /\ [][Next]_vars
C16_ExactOnFloats == "fail" \notin bad
HarnessHonest == "harness" \notin bad
=============================================================================
