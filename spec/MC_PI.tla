------------------------------- MODULE MC_PI -------------------------------
(***************************************************************************)
(* Enumeration of the argument space of the pairwise intersection step     *)
(* (C16): every ordered pair of non-degenerate segments with end points on *)
(* an (N+1)x(N+1) lattice, each pair scaled by its own determinant so that *)
(* the exact meeting point is integral, with the operand / in-out flag     *)
(* combinations that matter.  TLC checks the specification's own           *)
(* intersection operator on every pair (symmetry, the point lies on both   *)
(* segments) and prints one line "PI <json>" per tuple; the harness        *)
(* replays every tuple through the real possible_intersection and TLC      *)
(* judges the recorded outcomes (TracePI.tla).                             *)
(***************************************************************************)
EXTENDS Geometry, Json

CONSTANT N

Pts == {<<x, y>> : x \in 0..N, y \in 0..N}
SegsL == {s \in Pts \X Pts : Lex(s[1], s[2])}          \* left end first

VARIABLES a, b, fl, st
pvars == <<a, b, fl, st>>

Scale(s, t) == LET k == Cross(Sub(s[2], s[1]), Sub(t[2], t[1])) IN IF k = 0 THEN 1 ELSE Abs(k)
Sc(s, L) == << <<L*s[1][1], L*s[1][2]>>, <<L*s[2][1], L*s[2][2]>> >>

Init == /\ a \in SegsL /\ b \in SegsL /\ st = 0
        /\ LET L0 == Scale(a, b)  s0 == Sc(a, L0)  t0 == Sc(b, L0)  x == SegInter(s0[1], s0[2], t0[1], t0[2]) IN
           IF x.k = "overlap"
           THEN fl \in {<<1, 0, 0, 0>>, <<1, 0, 0, 1>>, <<1, 0, 1, 0>>, <<1, 0, 1, 1>>, <<0, 1, 0, 1>>, <<1, 1, 0, 0>>}
           ELSE fl \in {<<1, 0, 0, 0>>}                  \* <<subjectA, subjectB, inOutA, inOutB>>
Next == st = 0 /\ st' = 1 /\ UNCHANGED <<a, b, fl>>
Spec == Init /\ [][Next]_pvars

\* the specification's intersection operator is symmetric and exact on the scaled pair
SpecInterOK ==
  LET L == Scale(a, b)  s == Sc(a, L)  t == Sc(b, L)
      x == SegInter(s[1], s[2], t[1], t[2])  y == SegInter(t[1], t[2], s[1], s[2])
  IN /\ x.k = y.k
     /\ x.k = "point" => (x.p = y.p /\ OnSeg(x.p, s) /\ OnSeg(x.p, t))
     /\ x.k = "overlap" => (x.p = y.p /\ x.q = y.q /\ OnSeg(x.p, s) /\ OnSeg(x.q, t) /\ Lex(x.p, x.q))
     /\ x.k = "none" => ~\E p \in {s[1], s[2]} : OnSeg(p, t)

Emit == st = 1 =>
          LET L == Scale(a, b) IN
          PrintT(<<"PI", ToJson([a |-> Sc(a, L), b |-> Sc(b, L), sa |-> fl[1], sb |-> fl[2], ioa |-> fl[3], iob |-> fl[4]])>>)
=============================================================================
