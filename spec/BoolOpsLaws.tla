---------------------------- MODULE BoolOpsLaws ----------------------------
(***************************************************************************)
(* The relational laws C05, C06, C09, C11 as consequences of the contract  *)
(* C01, for ARBITRARY regions (sets of points of any universe) - proved    *)
(* with TLAPS, where BoolOpsAbs.tla checks the same statements with TLC    *)
(* over a three-cell universe and bounded histories.  `Op` is the region   *)
(* the contract demands of a call; every theorem is a statement about      *)
(* what the trace specification (BoolOps.tla) may demand of recorded       *)
(* results: none of its relational laws can reject a behaviour that        *)
(* satisfies the contract.  Checked by `tlapm` in the thorough tier of     *)
(* C05 / C06 / C09 / C11 (bin/checks_ops.py: prove_laws).                  *)
(***************************************************************************)


Int(a, b) == a \cap b
Union(a, b) == a \cup b
Diff(a, b) == a \ b
Xor(a, b) == (a \ b) \cup (b \ a)

\* C05: intersection and the two differences partition the union, xor is the two differences
THEOREM C05_Disjoint == \A a, b : /\ Int(a, b) \cap Diff(a, b) = {}
                                  /\ Int(a, b) \cap Diff(b, a) = {}
                                  /\ Diff(a, b) \cap Diff(b, a) = {}
  BY DEF Int, Diff
THEOREM C05_Cover == \A a, b : Int(a, b) \cup Diff(a, b) \cup Diff(b, a) = Union(a, b)
  BY DEF Int, Diff, Union
THEOREM C05_XorIsDiffs == \A a, b : Xor(a, b) = Diff(a, b) \cup Diff(b, a)
  BY DEF Xor, Diff
THEOREM C05_XorIsUnionMinusInt == \A a, b : Xor(a, b) = Diff(Union(a, b), Int(a, b))
  BY DEF Xor, Diff, Union, Int

\* C06: commutativity, idempotence, identities with the empty operand
THEOREM C06_Commutes == \A a, b : /\ Int(a, b) = Int(b, a)
                                  /\ Union(a, b) = Union(b, a)
                                  /\ Xor(a, b) = Xor(b, a)
  BY DEF Int, Union, Xor
THEOREM C06_Self == \A a : /\ Int(a, a) = a /\ Union(a, a) = a /\ Diff(a, a) = {} /\ Xor(a, a) = {}
  BY DEF Int, Union, Diff, Xor
THEOREM C06_Empty == \A a : /\ Int(a, {}) = {} /\ Union(a, {}) = a /\ Diff(a, {}) = a /\ Xor(a, {}) = a
                            /\ Int({}, a) = {} /\ Union({}, a) = a /\ Diff({}, a) = {} /\ Xor({}, a) = a
  BY DEF Int, Union, Diff, Xor

\* C09: a part f that lies in neither operand's remainder passes through unchanged
THEOREM C09_FarLeft == \A a, b, f : (f \cap a = {} /\ f \cap b = {}) =>
                          /\ Int(a \cup f, b) = Int(a, b)
                          /\ Union(a \cup f, b) = Union(a, b) \cup f
                          /\ Diff(a \cup f, b) = Diff(a, b) \cup f
                          /\ Xor(a \cup f, b) = Xor(a, b) \cup f
  BY DEF Int, Union, Diff, Xor
THEOREM C09_FarRight == \A a, b, f : (f \cap a = {} /\ f \cap b = {}) =>
                          /\ Int(a, b \cup f) = Int(a, b)
                          /\ Union(a, b \cup f) = Union(a, b) \cup f
                          /\ Diff(a, b \cup f) = Diff(a, b)
                          /\ Xor(a, b \cup f) = Xor(a, b) \cup f
  BY DEF Int, Union, Diff, Xor

\* C11: the named chained identities
THEOREM C11_UnionMinus == \A a, b : Diff(Union(a, b), b) = Diff(a, b)
  BY DEF Diff, Union
THEOREM C11_DiffDiff == \A a, b : Diff(a, Diff(a, b)) = Int(a, b)
  BY DEF Diff, Int
THEOREM C11_IntUnionAbsorb == \A a, b : Int(a, Union(a, b)) = a /\ Union(a, Int(a, b)) = a
  BY DEF Int, Union
THEOREM C11_DeMorgan == \A a, b, c : /\ Diff(c, Union(a, b)) = Int(Diff(c, a), Diff(c, b))
                                      /\ Diff(c, Int(a, b)) = Union(Diff(c, a), Diff(c, b))
  BY DEF Diff, Union, Int
THEOREM C11_XorAssoc == \A a, b, c : Xor(Xor(a, b), c) = Xor(a, Xor(b, c))
  BY DEF Xor
THEOREM C11_Distrib == \A a, b, c : /\ Int(a, Union(b, c)) = Union(Int(a, b), Int(a, c))
                                     /\ Union(a, Int(b, c)) = Int(Union(a, b), Union(a, c))
  BY DEF Int, Union
=============================================================================
