------------------------------- MODULE BoolOps -------------------------------
(***************************************************************************)
(* Layer P: the library seen as a state machine over CALL HISTORIES.       *)
(*                                                                         *)
(* State: an environment of named multipolygon values (`val`), what is     *)
(* known about each name (`meta`: how it relates to earlier names, its     *)
(* Boolean expression over base operands, its coordinate frame) and the    *)
(* log of calls made so far.  Actions: Define (a generator-made operand)   *)
(* and Call (one library call; the value it returned is bound to a new     *)
(* name and may be an operand of later calls).  Every listed property      *)
(* C01..C12 is a named LAW: a predicate on a call and the history before   *)
(* it.  `bad` collects the laws violated by the last step; the invariants  *)
(* at the end of the module say that it stays empty.                       *)
(*                                                                         *)
(* The machine does not compute results: Call takes the value the          *)
(* implementation returned and the laws judge it.  That is what makes the  *)
(* module directly usable as a trace specification (TraceOps.tla).         *)
(***************************************************************************)
EXTENDS Oracle, FloatGeometry

CONSTANTS Laws,      \* the set of law identifiers to evaluate ("C01" .. "C12")
          OnlyF      \* "any", or a float type: unary laws are evaluated only for calls of that type

VARIABLES val, meta, log, bad
bvars == <<val, meta, log, bad>>

DevTol == 1000       \* 1e-9 x magnitude in the recorder's units (f32: 1e-5, see DESIGN)
ExactMax == 48       \* octilinear integer inputs up to this magnitude compute exactly (harness self-test `exactness`)

Ext(f, k, v) == [n \in (DOMAIN f) \cup {k} |-> IF n = k THEN v ELSE f[n]]

\* ---------------------------------------------------------------- helpers
EdgesOfName(n) == EdgeRecs(val[n])
IsEmptyMp(mp) == EdgeRecs(mp) = {}
EndPts(X) == UNION {{x.e[1], x.e[2]} : x \in X}
Octi(mp) == \A x \in EdgeRecs(mp) :
               LET dx == x.e[2][1] - x.e[1][1]  dy == x.e[2][2] - x.e[1][2]
               IN /\ (dx = 0 \/ dy = 0 \/ Abs(dx) = Abs(dy))
                  /\ Abs(x.e[1][1]) <= ExactMax /\ Abs(x.e[1][2]) <= ExactMax
                  /\ Abs(x.e[2][1]) <= ExactMax /\ Abs(x.e[2][2]) <= ExactMax
Bases(c) == BaseNames(meta[c.x].expr) \cup BaseNames(meta[c.y].expr)
\* operands that meet in common vertices only: no meeting point is ever computed, every output
\* coordinate is an input coordinate
TouchOnly(c) == LET E == UNION {Segs(EdgeRecs(val[n])) : n \in Bases(c)}
                    Vin == UNION {{e[1], e[2]} : e \in E}
                IN /\ \A e \in E : \A f \in E : ~ProperCross(e, f) /\ ~CollinearOverlap(e, f)
                   /\ \A v \in Vin : \A e \in E : OnSeg(v, e) => (v = e[1] \/ v = e[2])
\* `big`: coordinates beyond 2^12 (up to 2^30) - only arithmetic-free laws are evaluated;
\* `touch`: the generator's claim (trusted like validity) that the two operands of the family
\* meet in common vertices only
\* `opaque`: operands passed with their original float coordinates (the repository's fixtures):
\* no image in the integer domain, so only the geometry-free laws C03 and C12 apply
OpaqueCall(c) == meta[c.x].opaque \/ meta[c.y].opaque
\* (`wit`: small coordinates on a fine grid, crossing points not representable - no arrangement either)
BigCall(c) == meta[c.x].big \/ meta[c.y].big \/ OpaqueCall(c) \/ meta[c.x].wit > 0 \/ meta[c.y].wit > 0
ClaimedTouch(c) == meta[c.x].touch /\ meta[c.y].touch
ExactCall(c) == IF BigCall(c) THEN ClaimedTouch(c) ELSE ((\A n \in Bases(c) : Octi(val[n])) \/ TouchOnly(c))
Depth1(c) == meta[c.x].expr[1] = "b" /\ meta[c.y].expr[1] = "b"
Cls(n) == IF meta[n].rel = "rewrite" THEN meta[n].of ELSE n
ExprOf(c) == <<"o", c.op, meta[c.x].expr, meta[c.y].expr>>

MapMp(mp, f(_)) == [i \in 1..Len(mp) |-> [j \in 1..Len(mp[i]) |-> [k \in 1..Len(mp[i][j]) |-> f(mp[i][j][k])]]]
SymPt(t, p) == CASE t = 0 -> <<p[1], p[2], p[3]>>  [] t = 1 -> <<-p[1], p[2], p[3]>>
                 [] t = 2 -> <<p[1], -p[2], p[3]>> [] t = 3 -> <<-p[1], -p[2], p[3]>>
                 [] t = 4 -> <<p[2], p[1], p[3]>>  [] t = 5 -> <<-p[2], p[1], p[3]>>
                 [] t = 6 -> <<p[2], -p[1], p[3]>> [] t = 7 -> <<-p[2], -p[1], p[3]>>
SymMp(mp, t) == MapMp(mp, LAMBDA p : SymPt(t, p))
TransMp(mp, d) == MapMp(mp, LAMBDA p : <<p[1] + d[1], p[2] + d[2], p[3]>>)

\* the code takes the bounding-box shortcut iff an operand has no (non-degenerate) edge or
\* the boxes of the edge start points are strictly separated
Trivial(c) == LET X == EdgesOfName(c.x)  Y == EdgesOfName(c.y)
              IN X = {} \/ Y = {} \/ BoxesDisjoint(BBox(EndPts(X)), BBox(EndPts(Y)))
AsSubject(c) == val[c.x]
TrivialResult(c) == CASE c.op = "int" -> <<>>
                      [] c.op = "diff" -> val[c.x]
                      [] OTHER -> val[c.x] \o val[c.y]

\* region equality of two ring sets read by the even-odd rule: their edges cancel mod 2 on
\* every atom of the common arrangement
Tag(X, t) == { [e |-> x.e, id |-> <<t>> \o x.id] : x \in X }
\* (if the edges of the two ring sets meet in non-integral points - only possible when one of
\*  them violates C04 - the comparison is outside the integer domain: UNDECIDED, printed, not failed)
RegionEqRecs(Z) == LET E == Segs(Z) IN
                   IF ~AllIntegral(E) THEN PrintT(<<"UNDECIDED-REGIONEQ">>)
                   ELSE LET V == ArrVerts(E)
                        IN \A s \in AtomsOf(E, V) : Cardinality({z \in Z : Covers(z.e, s)}) % 2 = 0
RegionEq(m1, m2) == RegionEqRecs(Tag(EdgeRecs(m1), 1) \cup Tag(EdgeRecs(m2), 2))
RegionEq4(m1, m2, m3, m4) == RegionEqRecs(Tag(EdgeRecs(m1), 1) \cup Tag(EdgeRecs(m2), 2)
                                          \cup Tag(EdgeRecs(m3), 3) \cup Tag(EdgeRecs(m4), 4))
RegionEq3(m1, m2, m3) == RegionEq4(m1, m2, m3, <<>>)

\* ------------------------------------------------------------ unary laws
\* C03: the call returned, and the sweep processed a quadratically bounded number of events
C03_Returns(c) ==
  /\ c.outcome = "ok"
  /\ LET ne(v) == IF meta[v].opaque THEN meta[v].nedges ELSE Cardinality(EdgesOfName(v))
         n == ne(c.x) + ne(c.y)
     IN n = 0 \/ (c.popped \div n) <= 4*n + 2

\* C04: the output geometry comes from the inputs (rings assembled by the sweep)
C04_RingsFromInputs(c) ==
  Trivial(c) \/
  LET Ein == Segs(EdgesOfName(c.x)) \cup Segs(EdgesOfName(c.y))
      V   == ArrVerts(Ein)
      Vin == UNION {{e[1], e[2]} : e \in Ein}
      exact == ExactCall(c)
      direct == Depth1(c) \/ exact
      Pure(p) == p \in Vin /\ \A f \in Ein : OnSeg(p, f) => (p = f[1] \/ p = f[2])
  IN \A i \in 1..Len(c.mp) : \A j \in 1..Len(c.mp[i]) :
       LET ring == c.mp[i][j] IN
       /\ Len(ring) >= 4 /\ ring[1] = ring[Len(ring)]
       /\ Cardinality({XY(ring[k]) : k \in 1..Len(ring)}) >= 3
       /\ Area2(ring) > 0
       /\ \A k \in 1..(Len(ring)-1) :
             XY(ring[k]) # XY(ring[k+1]) => \E f \in Ein : OnSeg(ring[k], f) /\ OnSeg(ring[k+1], f)
       /\ \A k \in 1..Len(ring) :
             /\ XY(ring[k]) \in V
             /\ ring[k][3] <= (IF exact THEN 0 ELSE DevTol)
             /\ (direct /\ Pure(XY(ring[k]))) => ring[k][3] = 0

\* C01 (and C11 for chained calls): the result, read polygon by polygon, is the named
\* combination of the base operands on both sides of every atom of their arrangement
RegionOK(c, extra) == RegionMatches(c.mp, ExprOf(c), [n \in BaseNames(ExprOf(c)) |-> EdgeRecs(val[n])], extra)

\* C02: the rings are grouped into a valid polygon set
C02_PolygonSetValid(c) ==
  Trivial(c) \/ PolygonSetValid(c.mp, Segs(EdgesOfName(c.x)) \cup Segs(EdgesOfName(c.y)))

\* C01 without arithmetic, for operands that meet in common vertices only (presented
\* counter-clockwise): the result is the obvious list of rings
C01_TouchOnlyObvious(c) ==
  ClaimedTouch(c) =>
    CASE c.op = "int" -> IsEmptyMp(c.mp)
      [] c.op = "diff" -> CanonMp(c.mp, TRUE) = CanonMp(val[c.x], TRUE)
      [] OTHER -> CanonMp(c.mp, TRUE) = CanonMp(val[c.x] \o val[c.y], TRUE)

\* C01 by WITNESS POINTS, for operands in general position whose crossing points are not
\* representable (small integer coordinates, presented on a 2^-10 grid: meta.wit = the grid step
\* 1024 in recorded units).  The statement of C01 itself is about points "not within rounding
\* distance of an input edge": the witnesses are the centres of the unit cells, w = (i + 1/2, j + 1/2).
\* In doubled original units a witness has odd coordinates and an input edge even ones, so the
\* orientation determinant of (edge, w) is an integer: if it is not 0, w is at least 1/(2|e|) >= 0.05
\* away from the edge's line - 50 times the recorder's grid.  Witnesses on the line of an input edge are
\* skipped.  Membership is decided by exact integer ray casting (even-odd per ring, a polygon is its
\* exterior minus its holes, the multipolygon the union of its polygons).
WitnessCall(c) == meta[c.x].wit > 0 /\ meta[c.y].wit = meta[c.x].wit /\ meta[c.x].expr[1] = "b" /\ meta[c.y].expr[1] = "b"
RayHits(ring, w) ==        \* number of edges of the ring crossed by the ray from w towards +x (half-open rule)
  Cardinality({k \in 1..(Len(ring) - 1) :
     LET p == ring[k]  q == ring[k + 1]
         up == p[2] <= w[2] /\ q[2] > w[2]
         dn == q[2] <= w[2] /\ p[2] > w[2]
     IN (up /\ Orient(XY(p), XY(q), w) > 0) \/ (dn /\ Orient(XY(p), XY(q), w) < 0)})
InRing(ring, w) == RayHits(ring, w) % 2 = 1
InPoly(poly, w) == Len(poly) >= 1 /\ InRing(poly[1], w) /\ \A j \in 2..Len(poly) : ~InRing(poly[j], w)
InMpAt(mp, w) == \E i \in 1..Len(mp) : InPoly(mp[i], w)
\* operands are read by the even-odd rule over all their rings (the same for valid operands)
RingIdx(mp) == UNION {{<<i, j>> : j \in 1..Len(mp[i])} : i \in 1..Len(mp)}
InOperand(mp, w) == (Cardinality({p \in RingIdx(mp) : InRing(mp[p[1]][p[2]], w)}) % 2) = 1
Min2(S) == CHOOSE x \in S : \A y \in S : x <= y
Max2(S) == CHOOSE x \in S : \A y \in S : x >= y
C01_Witness(c) ==
  LET g == meta[c.x].wit
      A == val[c.x]  B == val[c.y]
      Ein == Segs(EdgeRecs(A)) \cup Segs(EdgeRecs(B))
      pts == UNION {{e[1], e[2]} : e \in Ein}
      lo == (Min2({p[1] : p \in pts} \cup {p[2] : p \in pts}) \div g) - 1
      hi == (Max2({p[1] : p \in pts} \cup {p[2] : p \in pts}) \div g) + 1
      W == {<<(2*i + 1) * (g \div 2), (2*j + 1) * (g \div 2)>> : i \in lo..hi, j \in lo..hi}
      clear(w) == \A e \in Ein : Orient(e[1], e[2], w) # 0
  IN Ein = {} \/ \A w \in W : clear(w) => (InMpAt(c.mp, w) = InOp(c.op, InOperand(A, w), InOperand(B, w)))

\* C01 for operands given with their original float coordinates that only touch: the generator
\* states the obvious result; coordinates are compared as bit strings (no arithmetic), rings up to
\* their start vertex
OpenS(r) == IF Len(r) >= 2 /\ r[1] = r[Len(r)] THEN SubSeq(r, 1, Len(r) - 1) ELSE r
RotEqS(r1, r2) == LET a == OpenS(r1)  b == OpenS(r2)
                  IN Len(a) = Len(b) /\ (Len(a) = 0 \/ \E k \in 1..Len(a) : RotTo(a, k) = b)
PolyEqS(p, q) == Len(p) = Len(q) /\ Len(p) >= 1 /\ RotEqS(p[1], q[1])
                 /\ \A j \in 2..Len(p) : \E j2 \in 2..Len(q) : RotEqS(p[j], q[j2])
SameRingSetS(m1, m2) == /\ Len(m1) = Len(m2)
                        /\ \A i \in 1..Len(m1) : \E j \in 1..Len(m2) : PolyEqS(m1[i], m2[j])
                        /\ \A j \in 1..Len(m2) : \E i \in 1..Len(m1) : PolyEqS(m1[i], m2[j])
C01_OpaqueObvious(c) == c.hasexpect => SameRingSetS(c.smp, c.expect)

\* ---------------------------------------------------- laws on the float coordinates themselves
\* Operands handed to the library with coordinates that have NO image in the integer domain
\* (irrational rotations / shears of lattice operands, rounded to the nearest double or float): meta.smp
\* holds their rings as bit-pattern points, c.smp the returned rings, c.wits candidate witness points
\* chosen by the generator (it chooses, it does not judge), c.mexp its claim that every operand
\* coordinate is at most 2^mexp in magnitude.  FloatGeometry decides everything exactly.
\* A witness is ADMISSIBLE if it is at least 2^(mexp - KW) away from the line of every edge of every
\* base operand: "not within rounding distance of an input edge" - 2^-29 (f64, about 2e-9: twice the 1e-9 of the
\* integer-domain tolerance) / 2^-15 (f32) of the coordinate magnitude, far more than the tolerance KN below.
KW(F) == IF F = "f64" THEN 29 ELSE 15
\* tolerance of C04 on floats for the distance of a result vertex from the input EDGES it lies on: 2^(mexp-46) for
\* f64, 2^(mexp-17) for f32 = 128 units in the last place of 2^mexp (the position ALONG a shallow crossing is badly
\* conditioned and is not measured; the distance from both edges is not - "every edge of every result ring lies on
\* an edge of one of the operands"; measured on the unchanged library: at most about 4 units)
KN(F) == IF F = "f64" THEN 46 ELSE 17
FloatCall(c) == "wits" \in DOMAIN c /\ \A n \in Bases(c) : meta[n].fw
FBaseEdges(c) == UNION {FProperEdges(meta[n].smp) : n \in Bases(c)}
FAdmissible(c) == LET E == FBaseEdges(c)  d == c.mexp - KW(c.F)
                  IN {i \in 1..Len(c.wits) : FClear(E, c.wits[i], d)}
FExpected(c, w) == EvalExpr(ExprOf(c), [n \in Bases(c) |-> FInEvenOdd(meta[n].smp, w)])
\* the generator's claims: the magnitude bound, and witnesses that are mostly admissible (anti-vacuity)
FClaimsHonest(c) ==
  /\ \A n \in Bases(c) : \A e \in FEdges(meta[n].smp) : \A k \in 1..2 : FAbsLeqPow2(e[k][1], c.mexp) /\ FAbsLeqPow2(e[k][2], c.mexp)
  /\ (FBaseEdges(c) # {} => 2 * Cardinality(FAdmissible(c)) >= Len(c.wits))
\* C01 (C11 for chained calls): at every admissible witness the returned multipolygon, read polygon by
\* polygon, contains the point iff the named combination of the operands (even-odd reading) does
C01_WitnessF(c) == \A i \in FAdmissible(c) : FInMp(c.smp, c.wits[i]) = FExpected(c, c.wits[i])
\* C02 at witnesses: no point is in two polygons, the polygon reading and the even-odd reading of all
\* rings agree (a hole listed under the wrong polygon makes them differ inside that hole), and no
\* boundary segment is listed twice (bitwise, either direction)
FUnordered(e) == {e[1], e[2]}
FNoRepeatedEdge(mp) ==
  \A x \in FRingIdx(mp) : \A y \in FRingIdx(mp) :
     LET r1 == mp[x[1]][x[2]]  r2 == mp[y[1]][y[2]]
     IN \A k \in 1..(Len(r1) - 1) : \A m \in 1..(Len(r2) - 1) :
          (<<x, k>> # <<y, m>> /\ r1[k] # r1[k + 1]) => {r1[k], r1[k + 1]} # {r2[m], r2[m + 1]}
C02_WitnessF(c) ==
  /\ \A i \in FAdmissible(c) : LET w == c.wits[i]
                                 IN Cardinality(FPolysAt(c.smp, w)) <= 1 /\ (FInMp(c.smp, w) = FInEvenOdd(c.smp, w))
  /\ FNoRepeatedEdge(c.smp)
\* C04 on floats: closed rings with >= 3 distinct vertices and non-zero area, counter-clockwise when the
\* sweep ran (popped > 0: rings handed back by the box shortcut keep their direction); every edge within
\* tolerance of ONE input edge; every vertex bit-identical to an input vertex or within tolerance of two
\* input edges on different lines
C04_F(c) ==
  LET E == FBaseEdges(c)  d == c.mexp - KN(c.F)
      V == UNION {{e[1], e[2]} : e \in E}
      near(f, v) == FNearSeg(f[1], f[2], v, d)
      otherline(f, g) == FOrient(f[1], f[2], g[1]) # 0 \/ FOrient(f[1], f[2], g[2]) # 0
  IN \A x \in FRingIdx(c.smp) :
       LET ring == c.smp[x[1]][x[2]] IN
       /\ Len(ring) >= 4 /\ ring[1] = ring[Len(ring)]
       /\ Cardinality({ring[k] : k \in 1..Len(ring)}) >= 3
       /\ FAreaSgn(ring) # 0 /\ (c.popped > 0 => FAreaSgn(ring) = 1)
       /\ \A k \in 1..(Len(ring) - 1) :
             ring[k] = ring[k + 1] \/ \E f \in E : near(f, ring[k]) /\ near(f, ring[k + 1])
       /\ \A k \in 1..(Len(ring) - 1) :
             ring[k] \in V \/ \E f \in E : near(f, ring[k]) /\ \E g \in E : g # f /\ otherline(f, g) /\ near(g, ring[k])

\* C12 (first half): the operands are bit-for-bit what they were before the call
C12_OperandsUntouched(c) == c.xd[1] = c.xd[2] /\ c.yd[1] = c.yd[2]

\* C06: self-operations, empty operands, disjoint boxes
C06_Self(c) == c.x = c.y =>
                 IF c.op \in {"int", "union"} THEN RegionEq(c.mp, val[c.x]) ELSE IsEmptyMp(c.mp)
C06_Empty(c) == (IsEmptyMp(val[c.x]) \/ IsEmptyMp(val[c.y])) =>
                 CASE c.op \in {"union", "xor"} -> RegionEq3(c.mp, val[c.x], val[c.y])
                   [] c.op = "diff" -> RegionEq(c.mp, val[c.x])
                   [] OTHER -> IsEmptyMp(c.mp)
C06_DisjointBoxes(c) == Trivial(c) => c.mp = TrivialResult(c)
\* "... or merely touching bounding boxes": the boxes meet in a line or a point only, so the operands'
\* interiors are disjoint and the result is the obvious combination - as a REGION read polygon by
\* polygon and as a valid polygon set (a part attached as a hole of the polygon it touches has the
\* right even-odd reading and the wrong polygon reading)
BoxesTouchOnly(c) ==
  LET X == EdgesOfName(c.x)  Y == EdgesOfName(c.y) IN
  X # {} /\ Y # {} /\ ~Trivial(c) /\
  LET bx == BBox(EndPts(X))  by == BBox(EndPts(Y))
  IN bx[3] = by[1] \/ by[3] = bx[1] \/ bx[4] = by[2] \/ by[4] = bx[2]
C06_TouchingBoxes(c, extra) == (BoxesTouchOnly(c) /\ Depth1(c)) => (RegionOK(c, extra) /\ C02_PolygonSetValid(c))
\* C12, second half over EQUAL operands: two calls whose operands are equal as values (PartialEq: -0.0 = 0.0)
\* although they are different objects with different bits return equal results
C12_EqualOperands(c, d) ==
  (d.op = c.op /\ d.F = c.F /\ d.px = c.px /\ d.py = c.py /\ <<d.x, d.y>> # <<c.x, c.y>> /\ ~OpaqueCall(c) /\ ~OpaqueCall(d)
     /\ meta[d.x].frame = meta[c.x].frame /\ meta[d.y].frame = meta[c.y].frame /\ val[d.x] = val[c.x] /\ val[d.y] = val[c.y]) =>
     (d.outcome = c.outcome /\ d.mp = c.mp)

\* ------------------------------------------------ laws relating two calls
OkPair(c, d) == c.outcome = "ok" /\ d.outcome = "ok"
SameCallShape(c, d) == d.op = c.op /\ d.F = c.F /\ meta[d.x].frame = meta[c.x].frame

C06_Commutes(c, d) ==
  (OkPair(c, d) /\ SameCallShape(c, d) /\ c.op \in {"int", "union", "xor"} /\ d.x = c.y /\ d.y = c.x /\ c.x # c.y) =>
     IF ExactCall(c) THEN CanonMp(c.mp, FALSE) = CanonMp(d.mp, FALSE) ELSE RegionEq(c.mp, d.mp)

C07_RepresentationInvariant(c, d) ==
  (OkPair(c, d) /\ SameCallShape(c, d) /\ Cls(d.x) = Cls(c.x) /\ Cls(d.y) = Cls(c.y)
     /\ <<d.x, d.y, d.px, d.py>> # <<c.x, c.y, c.px, c.py>>) =>
     IF ExactCall(c) THEN CanonMp(c.mp, TRUE) = CanonMp(d.mp, TRUE) ELSE RegionEq(c.mp, d.mp)

RelOf(n, kind, m) == meta[n].rel = kind /\ meta[n].of = m
C08_TransformCommutes(c, d) ==
  (OkPair(c, d) /\ d.op = c.op /\ d.F = c.F) =>
    /\ (RelOf(c.x, "scale", d.x) /\ RelOf(c.y, "scale", d.y) /\ meta[c.x].sk = meta[c.y].sk) =>
          (c.mp = d.mp /\ c.bits = d.bits)
    /\ (RelOf(c.x, "translate", d.x) /\ RelOf(c.y, "translate", d.y) /\ meta[c.x].d = meta[c.y].d) =>
          IF ExactCall(d) THEN c.mp = TransMp(d.mp, meta[c.x].d) ELSE RegionEq(c.mp, TransMp(d.mp, meta[c.x].d))
    /\ (RelOf(c.x, "sym", d.x) /\ RelOf(c.y, "sym", d.y) /\ meta[c.x].t = meta[c.y].t) =>
          RegionEq(c.mp, SymMp(d.mp, meta[c.x].t))

LastPoly(mp) == <<mp[Len(mp)]>>
C09_FarPartLocal(c, d) ==
  (OkPair(c, d) /\ SameCallShape(c, d)) =>
    /\ (RelOf(c.x, "farpart", d.x) /\ c.y = d.y) =>
          IF c.op = "int" THEN RegionEq(c.mp, d.mp) ELSE RegionEq3(c.mp, d.mp, LastPoly(val[c.x]))
    /\ (RelOf(c.y, "farpart", d.y) /\ c.x = d.x) =>
          IF c.op \in {"int", "diff"} THEN RegionEq(c.mp, d.mp) ELSE RegionEq3(c.mp, d.mp, LastPoly(val[c.y]))

C10_F32AgreesF64(c, d) ==
  (OkPair(c, d) /\ d.op = c.op /\ d.x = c.x /\ d.y = c.y /\ d.px = c.px /\ d.py = c.py /\ d.F # c.F /\ ExactCall(c)) =>
     c.mp = d.mp

C12_Deterministic(c, d) ==
  (d.op = c.op /\ d.x = c.x /\ d.y = c.y /\ d.px = c.px /\ d.py = c.py /\ d.F = c.F) =>
     (d.outcome = c.outcome /\ d.mp = c.mp /\ d.bits = c.bits)

\* C05: the five results of one operand pair partition each other (evaluated when `c` completes the set)
Role(d, X, Y) == CASE d.op = "diff" /\ d.x = X /\ d.y = Y -> "d1"
                   [] d.op = "diff" /\ d.x = Y /\ d.y = X -> "d2"
                   [] d.op = "int" /\ {d.x, d.y} = {X, Y} -> "i"
                   [] d.op = "union" /\ {d.x, d.y} = {X, Y} -> "u"
                   [] d.op = "xor" /\ {d.x, d.y} = {X, Y} -> "x"
                   [] OTHER -> "-"
C05_Partition(c, lg) ==
  LET X == c.x  Y == c.y
      cand == {k \in 1..Len(lg) : lg[k].outcome = "ok" /\ lg[k].F = c.F /\ Role(lg[k], X, Y) # "-"}
      has(r) == \E k \in cand : Role(lg[k], X, Y) = r
      get(r) == lg[CHOOSE k \in cand : Role(lg[k], X, Y) = r /\ \A k2 \in cand : Role(lg[k2], X, Y) = r => k2 <= k].mp
  IN (X # Y /\ c.outcome = "ok" /\ Depth1(c) /\ \A r \in {"i", "u", "d1", "d2", "x"} : has(r)
        /\ ~\E k \in 1..(Len(lg)-1) : lg[k].F = c.F /\ Role(lg[k], X, Y) = Role(c, X, Y)) =>
     LET I == get("i") U == get("u") D1 == get("d1") D2 == get("d2") Xr == get("x")
         aA == MpArea2(val[X])  aB == MpArea2(val[Y])
     IN /\ RegionEq4(I, D1, D2, U)                                   \* cover exactly the union ...
        /\ MpArea2(I) + MpArea2(D1) + MpArea2(D2) = MpArea2(U)       \* ... and are pairwise interior-disjoint
        /\ RegionEq3(D1, D2, Xr)
        /\ MpArea2(Xr) = MpArea2(D1) + MpArea2(D2)
        /\ MpArea2(I) + MpArea2(U) = aA + aB
        /\ MpArea2(Xr) = MpArea2(U) - MpArea2(I)
        /\ MpArea2(D1) = aA - MpArea2(I)

\* -------------------------------------------------------------- the laws violated by a call
UnaryOn(c) == OnlyF = "any" \/ c.F = OnlyF
Violated(c) ==
  LET ok == c.outcome = "ok"
      un == UnaryOn(c)
      lg == Append(log, c)
      pair(L(_, _)) == \A k \in 1..Len(log) : L(c, log[k])
      v03 == IF "C03" \in Laws /\ un /\ ~C03_Returns(c) THEN {"C03"} ELSE {}
      v12 == IF "C12" \in Laws /\ (~C12_OperandsUntouched(c) \/ ~pair(C12_Deterministic) \/ ~pair(C12_EqualOperands)) THEN {"C12"} ELSE {}
      big == BigCall(c)
      fw == FloatCall(c) /\ ok /\ un
      vfh == IF FloatCall(c) /\ ~FClaimsHonest(c) THEN {"HARNESS"} ELSE {}
      \* integer-domain calls: the generator's implicit claim that every meeting point of the operands' edges is a lattice
      \* point. If it is false the call is outside the decided domain: a tool error, never a verdict about the library.
      baseE == UNION {Segs(EdgeRecs(val[n])) : n \in Bases(c)}
      vdom == IF ~big /\ ok /\ un /\ Laws \cap {"C01", "C02", "C04", "C05", "C06", "C08", "C09", "C11"} # {} /\ ~AllIntegral(baseE)
              THEN {"HARNESS"} ELSE {}
      c04 == ~big /\ C04_RingsFromInputs(c)
      v04 == IF "C04" \in Laws /\ ((un /\ ok /\ ~big /\ ~c04) \/ (fw /\ ~C04_F(c))) THEN {"C04"} ELSE {}
      \* Region laws: when C04 holds the result's edges lie on input edges and the arrangement of
      \* the inputs decides them; otherwise the result's own edges refine the arrangement, provided
      \* every meeting point is still integral - if not, the law is UNDECIDED for this call (never
      \* silently passed: the step prints it, the C04 check reports the cause)
      resE == Segs(EdgeRecs(c.mp))
      allE == UNION {Segs(EdgeRecs(val[n])) : n \in Bases(c)} \cup resE
      wantGeo == ok /\ un /\ ~big /\ Laws \cap {"C01", "C11", "C02"} # {}
      decid == c04 \/ AllIntegral(allE)
      geo == wantGeo /\ decid
      extra == IF c04 THEN {} ELSE resE
      und == IF wantGeo /\ ~decid THEN {"UNDECIDED"} ELSE {}
      v01 == IF "C01" \in Laws /\ ((geo /\ Depth1(c) /\ ~RegionOK(c, extra)) \/ (ok /\ un /\ big /\ ~OpaqueCall(c) /\ ~C01_TouchOnlyObvious(c)) \/ (ok /\ un /\ OpaqueCall(c) /\ ~C01_OpaqueObvious(c))
                                      \/ (ok /\ un /\ WitnessCall(c) /\ ~C01_Witness(c))
                                      \/ (fw /\ Depth1(c) /\ ~C01_WitnessF(c))) THEN {"C01"} ELSE {}
      v11 == IF "C11" \in Laws /\ ((geo /\ ~Depth1(c) /\ ~RegionOK(c, extra)) \/ (fw /\ ~Depth1(c) /\ ~C01_WitnessF(c))) THEN {"C11"} ELSE {}
      v02 == IF "C02" \in Laws /\ ((geo /\ ~C02_PolygonSetValid(c)) \/ (fw /\ ~C02_WitnessF(c))) THEN {"C02"} ELSE {}
      \* C06 on float operands: self-operations and swapped operands, judged at witness points (and A - A, A xor A literally empty)
      swapped == \E k \in 1..Len(log) : log[k].op = c.op /\ log[k].x = c.y /\ log[k].y = c.x /\ log[k].F = c.F
      v06f == IF "C06" \in Laws /\ fw /\ (c.x = c.y \/ swapped)
                 /\ (~C01_WitnessF(c) \/ (c.x = c.y /\ c.op \in {"diff", "xor"} /\ c.smp # <<>>)) THEN {"C06"} ELSE {}
      \* C05 on float operands: the five results of one pair partition each other iff each of them is the named combination
      \* at every admissible witness
      v05f == IF "C05" \in Laws /\ fw /\ Depth1(c) /\ ~C01_WitnessF(c) THEN {"C05"} ELSE {}
      \* C09 on float operands: a call with an operand that carries a far part (a base operand of its own) is the named
      \* combination at every witness - near the other parts nothing depends on the far part or on the shortcuts it switches
      v09f == IF "C09" \in Laws /\ fw /\ Depth1(c) /\ ~C01_WitnessF(c) THEN {"C09"} ELSE {}
      v06 == IF "C06" \in Laws /\ ok /\ un /\ ~OpaqueCall(c) /\ ~((big \/ (C06_Self(c) /\ C06_Empty(c) /\ (~(c04 \/ AllIntegral(allE)) \/ C06_TouchingBoxes(c, extra)))) /\ C06_DisjointBoxes(c) /\ pair(C06_Commutes)) THEN {"C06"} ELSE {}
      v07 == IF "C07" \in Laws /\ ~OpaqueCall(c) /\ ~pair(C07_RepresentationInvariant) THEN {"C07"} ELSE {}
      v08 == IF "C08" \in Laws /\ ~big /\ ~pair(C08_TransformCommutes) THEN {"C08"} ELSE {}
      v09 == IF "C09" \in Laws /\ ~big /\ ~pair(C09_FarPartLocal) THEN {"C09"} ELSE {}
      v10 == IF "C10" \in Laws /\ ~OpaqueCall(c) /\ ~pair(C10_F32AgreesF64) THEN {"C10"} ELSE {}
      v05 == IF "C05" \in Laws /\ ~big /\ ~C05_Partition(c, lg) THEN {"C05"} ELSE {}
  IN vfh \cup vdom \cup und \cup v03 \cup v12 \cup v04 \cup v01 \cup v11 \cup v02 \cup v06 \cup v06f \cup v05f \cup v09f \cup v07 \cup v08 \cup v09 \cup v10 \cup v05

\* ------------------------------------------------------------------- actions
\* is the generator's claim about the new operand true? (a false claim is a harness error)
DefHonest(mp, m) ==
  CASE m.rel = "base" -> TRUE
    [] m.rel = "rewrite" -> CanonMp(mp, TRUE) = CanonMp(val[m.of], TRUE)
    [] m.rel = "scale" -> mp = val[m.of]
    [] m.rel = "translate" -> mp = TransMp(val[m.of], m.d)
    [] m.rel = "sym" -> mp = SymMp(val[m.of], m.t)
    [] m.rel = "farpart" -> /\ Len(mp) = Len(val[m.of]) + 1 /\ SubSeq(mp, 1, Len(mp)-1) = val[m.of]
    [] OTHER -> FALSE

Define(n, mp, m) ==
  /\ n \notin DOMAIN val
  /\ val' = Ext(val, n, mp)
  /\ meta' = Ext(meta, n, m)
  /\ bad' = IF DefHonest(mp, m) THEN {} ELSE {"HARNESS"}
  /\ UNCHANGED log

Call(c) ==
  /\ c.x \in DOMAIN val /\ c.y \in DOMAIN val /\ c.res \notin DOMAIN val
  /\ bad' = Violated(c)
  /\ val' = Ext(val, c.res, c.mp)
  /\ meta' = Ext(meta, c.res, [rel |-> "result", of |-> "", frame |-> meta[c.x].frame, expr |-> ExprOf(c),
                                big |-> meta[c.x].big \/ meta[c.y].big, touch |-> FALSE,
                                opaque |-> meta[c.x].opaque \/ meta[c.y].opaque, nedges |-> IF "nres" \in DOMAIN c THEN c.nres ELSE 0,
                                fw |-> meta[c.x].fw /\ meta[c.y].fw, smp |-> IF "smp" \in DOMAIN c THEN c.smp ELSE <<>>,
                                wit |-> IF meta[c.x].wit > meta[c.y].wit THEN meta[c.x].wit ELSE meta[c.y].wit])
  /\ log' = Append(log, c)

BInit == val = <<>> /\ meta = <<>> /\ log = <<>> /\ bad = {}

\* ---------------------------------------------------------------- invariants
C01_ResultRegion        == "C01" \notin bad
C02_ValidPolygonSet     == "C02" \notin bad
C03_EveryCallReturns    == "C03" \notin bad
C04_GeometryFromInputs  == "C04" \notin bad
C05_FourOpsConsistent   == "C05" \notin bad
C06_SetAlgebraLaws      == "C06" \notin bad
C07_RepresentationFree  == "C07" \notin bad
C08_SimilarityCommutes  == "C08" \notin bad
C09_FarPartsLocal       == "C09" \notin bad
C10_PrecisionsAgree     == "C10" \notin bad
C11_ChainedAlgebra      == "C11" \notin bad
C12_PureDeterministic   == "C12" \notin bad
HarnessHonest           == "HARNESS" \notin bad
=============================================================================
