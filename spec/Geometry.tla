------------------------------ MODULE Geometry ------------------------------
(***************************************************************************)
(* Layer P, pure operators: exact integer plane geometry.                  *)
(*                                                                         *)
(* Points are tuples whose first two components are integer coordinates    *)
(* (a third component, when present, is the recorder's deviation figure    *)
(* and is ignored here).  All predicates are exact; TLC integers are       *)
(* 32-bit and TLC stops on overflow, so callers keep |coordinate| <= 2^12. *)
(* A "domain error" Assert is a tool error (exit 2), never a violation.    *)
(***************************************************************************)
EXTENDS Integers, Sequences, FiniteSets, TLC, SequencesExt, FiniteSetsExt

XY(p) == <<p[1], p[2]>>
Lex(a, b) == a[1] < b[1] \/ (a[1] = b[1] /\ a[2] < b[2])
LexLe(a, b) == XY(a) = XY(b) \/ Lex(a, b)
Norm(e) == IF Lex(e[1], e[2]) THEN <<XY(e[1]), XY(e[2])>> ELSE <<XY(e[2]), XY(e[1])>>
Orient(a, b, c) == (b[1]-a[1])*(c[2]-a[2]) - (b[2]-a[2])*(c[1]-a[1])
Cross(u, v) == u[1]*v[2] - u[2]*v[1]
Dot(u, v) == u[1]*v[1] + u[2]*v[2]
Sub(a, b) == <<a[1]-b[1], a[2]-b[2]>>
Mn(a, b) == IF a < b THEN a ELSE b
Mx(a, b) == IF a > b THEN a ELSE b
Abs(x) == IF x < 0 THEN -x ELSE x
Sgn(x) == IF x < 0 THEN -1 ELSE IF x > 0 THEN 1 ELSE 0
RECURSIVE Gcd(_, _)
Gcd(a, b) == IF b = 0 THEN a ELSE Gcd(b, a % b)

InBox(p, e) == /\ Mn(e[1][1], e[2][1]) <= p[1] /\ p[1] <= Mx(e[1][1], e[2][1])
               /\ Mn(e[1][2], e[2][2]) <= p[2] /\ p[2] <= Mx(e[1][2], e[2][2])
OnSeg(p, e) == Orient(e[1], e[2], p) = 0 /\ InBox(p, e)
InteriorOf(p, e) == OnSeg(p, e) /\ XY(p) # XY(e[1]) /\ XY(p) # XY(e[2])
IsVerticalSeg(e) == e[1][1] = e[2][1]
Tr(p) == <<p[2], p[1]>>                      \* transposition
TrE(e) == Norm(<<Tr(e[1]), Tr(e[2])>>)

\* a1 + (sN/k)*va, exact; the quotient must be integral in the domain
Along(a1, va, sN, k) ==
  LET sg == IF k < 0 THEN -1 ELSE 1
      g  == Gcd(Abs(sN), Abs(k))
      n  == (sg*sN) \div (IF g = 0 THEN 1 ELSE g)
      d  == (sg*k) \div (IF g = 0 THEN 1 ELSE g)
  IN IF ((n*va[1]) % d) # 0 \/ ((n*va[2]) % d) # 0
     THEN Assert(FALSE, <<"domain error: non-integral intersection", a1, va, sN, k>>)
     ELSE <<a1[1] + ((n*va[1]) \div d), a1[2] + ((n*va[2]) \div d)>>

\* Is the exact intersection point of the two supporting lines integral?
IntegralAlong(va, sN, k) ==
  LET sg == IF k < 0 THEN -1 ELSE 1
      g  == Gcd(Abs(sN), Abs(k))
      n  == (sg*sN) \div (IF g = 0 THEN 1 ELSE g)
      d  == (sg*k) \div (IF g = 0 THEN 1 ELSE g)
  IN ((n*va[1]) % d) = 0 /\ ((n*va[2]) % d) = 0

(***************************************************************************)
(* Exact intersection of closed segments a1a2 and b1b2:                    *)
(*   [k |-> "none"] | [k |-> "point", p] | [k |-> "overlap", p, q]         *)
(* (p,q = the lexicographically ordered ends of the common part).          *)
(***************************************************************************)
SegInter(a1, a2, b1, b2) ==
  LET va == Sub(a2, a1)  vb == Sub(b2, b1)  e == Sub(b1, a1)
      k  == Cross(va, vb)
      none == [k |-> "none"]
  IN IF k # 0 THEN
        LET sN == Cross(e, vb)  tN == Cross(e, va)
            out(x) == IF k > 0 THEN x < 0 \/ x > k ELSE x > 0 \/ x < k
        IN IF out(sN) \/ out(tN) THEN none
           ELSE [k |-> "point", p |-> Along(XY(a1), va, sN, k)]
     ELSE IF Cross(e, va) # 0 THEN none
     ELSE \* collinear: order the four points lexicographically
          LET A == Norm(<<a1, a2>>)  B == Norm(<<b1, b2>>)
              lo == IF Lex(A[1], B[1]) THEN B[1] ELSE A[1]
              hi == IF Lex(A[2], B[2]) THEN A[2] ELSE B[2]
          IN IF Lex(hi, lo) THEN none
             ELSE IF lo = hi THEN [k |-> "point", p |-> lo]
             ELSE [k |-> "overlap", p |-> lo, q |-> hi]

\* orientation-only tests (no intersection point is computed, so they are total on any lattice)
ProperCross(e, f) == /\ Sgn(Orient(e[1], e[2], f[1])) * Sgn(Orient(e[1], e[2], f[2])) < 0
                     /\ Sgn(Orient(f[1], f[2], e[1])) * Sgn(Orient(f[1], f[2], e[2])) < 0
CollinearOverlap(e, f) == /\ Orient(e[1], e[2], f[1]) = 0 /\ Orient(e[1], e[2], f[2]) = 0
                          /\ LET A == Norm(e) B == Norm(f)
                                 lo == IF Lex(A[1], B[1]) THEN B[1] ELSE A[1]
                                 hi == IF Lex(A[2], B[2]) THEN A[2] ELSE B[2]
                             IN Lex(lo, hi)

\* would the single meeting point of the two segments (if any) be integral?  (total: never asserts)
IntegralMeet(e, f) ==
  LET va == Sub(e[2], e[1])  vb == Sub(f[2], f[1])  d == Sub(f[1], e[1])
      k == Cross(va, vb)  sN == Cross(d, vb)  tN == Cross(d, va)
      out(x) == IF k > 0 THEN x < 0 \/ x > k ELSE x > 0 \/ x < k
  IN k = 0 \/ out(sN) \/ out(tN) \/ IntegralAlong(va, sN, k)

\* set of proper/improper single meeting points of two non-collinear segments
XPts(e, f) == LET i == SegInter(e[1], e[2], f[1], f[2]) IN IF i.k = "point" THEN {i.p} ELSE {}

\* doubled signed area of a ring given as a sequence of points (closed or not)
RECURSIVE Area2Acc(_, _, _)
Area2Acc(r, i, acc) == IF i >= Len(r) THEN acc
                       ELSE Area2Acc(r, i+1, acc + Cross(r[i], r[i+1]))
Area2(r) == IF Len(r) < 2 THEN 0
            ELSE Area2Acc(r, 1, 0) + (IF XY(r[Len(r)]) = XY(r[1]) THEN 0 ELSE Cross(r[Len(r)], r[1]))

\* bounding box of a non-empty set of points: <<minx, miny, maxx, maxy>>
SMin(S) == CHOOSE x \in S : \A y \in S : x <= y
SMax(S) == CHOOSE x \in S : \A y \in S : x >= y
BBox(S) == <<SMin({p[1] : p \in S}), SMin({p[2] : p \in S}), SMax({p[1] : p \in S}), SMax({p[2] : p \in S})>>
BoxesDisjoint(a, b) == a[1] > b[3] \/ b[1] > a[3] \/ a[2] > b[4] \/ b[2] > a[4]
=============================================================================
