----------------------------- MODULE TraceSplay -----------------------------
(***************************************************************************)
(* Trace specification for recorded histories of the real SplayTree.       *)
(* Contract (Layer P, SortedMap): return values, len, iteration order,     *)
(* reference stability.  Mechanism (Layer M, SplayTree): the Debug shape   *)
(* after every call equals the transcription's.  A contract failure sets   *)
(* bad = "contract" (VIOLATION C17), a pure shape difference sets          *)
(* bad = "mechanism" (SPEC-DRIFT).  The implementation's reported shape is *)
(* adopted as the next state and validation CONTINUES after a drift (only  *)
(* the first drift of a history is printed; `drifted` remembers it), so a  *)
(* refactoring that rearranges the tree never switches the contract off;   *)
(* only a contract failure ends the validation of a history.               *)
(***************************************************************************)
EXTENDS SplayTree, Json, IOUtils

Runs == ndJsonDeserialize(IOEnv.TRACEFILE)

VARIABLES r, l, tree, bad, rem, drifted, ndrift
vars == <<r, l, tree, bad, rem, drifted, ndrift>>

Init == r \in 1..Len(Runs) /\ l = 1 /\ tree = Nil /\ bad = "no" /\ rem = {} /\ drifted = FALSE /\ ndrift = 0

\* nested JSON arrays [k,v,l,r] / [] are exactly the model's trees
Ev == Runs[r].events[l]
MapOps == {"insert", "remove", "get", "find", "contains", "next", "prev", "min", "max", "len", "clear", "is_empty", "get_mut", "index", "index_mut"}

RECURSIVE InsertAll(_, _)
InsertAll(m, items) == IF items = <<>> THEN m ELSE InsertAll(Upd(m, items[1][1], items[1][2]), Tail(items))
RECURSIVE DoAll(_, _)
DoAll(t, items) == IF items = <<>> THEN t ELSE DoAll(Do(t, [op |-> "insert", k |-> items[1][1], v |-> items[1][2]]).t, Tail(items))

Step ==
  /\ l <= Len(Runs[r].events) /\ bad # "contract"
  /\ LET e == Ev
         m == Content(tree)
         o == [op |-> e.op, k |-> e.k, v |-> e.v]
     IN CASE e.op \in MapOps ->
               LET d == Do(tree, o)
                   okP == /\ e.ret = Ret(m, o) /\ e.rv = RetVal(m, o)
                          /\ IsBST(e.shape, -1000000, 1000000)
                          /\ Content(e.shape) = Eff(m, o)
                          /\ LenIsCard(Content(e.shape), e.len) /\ e.len = Size(e.shape)
                   okM == d.t = e.shape
               IN /\ bad' = IF ~okP THEN "contract" ELSE IF ~okM THEN "mechanism" ELSE "no"
                  /\ tree' = e.shape /\ rem' = rem
          [] e.op = "hold" ->        \* a lookup that found its key (and splayed)
               LET d == Do(tree, [op |-> "find", k |-> e.k, v |-> 0])
                   okP == e.k \in DOMAIN m /\ e.ret = e.k /\ Content(e.shape) = m /\ IsBST(e.shape, -1000000, 1000000)
               IN /\ bad' = IF ~okP THEN "contract" ELSE IF d.t # e.shape THEN "mechanism" ELSE "no"
                  /\ tree' = e.shape /\ rem' = rem
          [] e.op = "check" ->       \* the held reference still denotes the same element
               LET d == Do(tree, [op |-> "find", k |-> e.k, v |-> 0])
                   okP == e.ret = e.k /\ e.rv = e.k /\ e.same = TRUE /\ Content(e.shape) = m
               IN /\ bad' = IF ~okP THEN "contract" ELSE IF d.t # e.shape THEN "mechanism" ELSE "no"
                  /\ tree' = e.shape /\ rem' = rem
          [] e.op = "extend" ->
               LET okP == /\ Content(e.shape) = InsertAll(m, e.items) /\ IsBST(e.shape, -1000000, 1000000)
                          /\ e.len = Size(e.shape)
               IN /\ bad' = IF ~okP THEN "contract" ELSE IF DoAll(tree, e.items) # e.shape THEN "mechanism" ELSE "no"
                  /\ tree' = e.shape
                  /\ rem' = Keys(e.shape)       \* the consuming iteration starts from here
          [] e.op \in {"iter_next", "iter_back"} ->
               LET back == e.op = "iter_back"
                   okP == /\ e.ret = IterRet(rem, back)
                          /\ (e.ret # None => e.rv = m[e.ret])
                          /\ e.len = Cardinality(IterEff(rem, back))
               IN /\ bad' = IF ~okP THEN "contract" ELSE "no"
                  /\ rem' = IterEff(rem, back) /\ tree' = tree
          [] e.op \in {"iter_nth", "iter_nth_back"} ->      \* Iterator::nth / nth_back with n = e.k
               LET back == e.op = "iter_nth_back"
                   okP == /\ e.ret = IterNthRet(rem, e.k, back)
                          /\ (e.ret # None => e.rv = m[e.ret])
                          /\ e.len = Cardinality(IterNthEff(rem, e.k, back))
               IN /\ bad' = IF ~okP THEN "contract" ELSE "no"
                  /\ rem' = IterNthEff(rem, e.k, back) /\ tree' = tree
  /\ l' = l + 1 /\ r' = r
  /\ drifted' = (drifted \/ bad' = "mechanism")
  /\ ndrift' = IF bad' = "mechanism" /\ ndrift < 2 THEN ndrift + 1 ELSE ndrift
  /\ (bad' = "contract" \/ (bad' = "mechanism" /\ ~drifted)) => PrintT(<<"SPLAYFAIL", bad', Runs[r].id, l>>)

Done == (l > Len(Runs[r].events) \/ bad = "contract") /\ UNCHANGED vars
Next == Step \/ Done
Spec == Init /\ [][Next]_vars

C17_Contract == bad # "contract"
\* violated in ONE state per drifting history (its first drift), so that a refactoring that rearranges every tree
\* costs one report per history and not one per event
M_NoDrift == ~(bad = "mechanism" /\ ndrift = 1)
C17_StateIsBST == IsBST(tree, -1000000, 1000000)
=============================================================================
