SPECIFICATION TraceSpec
CONSTANTS
  Laws = {"C01","C02","C03","C04","C05","C06","C07","C08","C09","C10","C11","C12"}
  OnlyF = "any"
INVARIANTS
  C03_EveryCallReturns
  C12_PureDeterministic
  C04_GeometryFromInputs
  C01_ResultRegion
  C11_ChainedAlgebra
  C02_ValidPolygonSet
  C06_SetAlgebraLaws
  C07_RepresentationFree
  C08_SimilarityCommutes
  C09_FarPartsLocal
  C10_PrecisionsAgree
  C05_FourOpsConsistent
  HarnessHonest
  Consumed
CHECK_DEADLOCK TRUE
