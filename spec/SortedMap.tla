----------------------------- MODULE SortedMap -----------------------------
(***************************************************************************)
(* Layer P: the abstract sorted map/set the splay tree must behave as.     *)
(* A map is a function from a finite set of integer keys to values.        *)
(* Every public operation is described by its exact return value (`Ret`)   *)
(* and its effect (`Eff`).  None is encoded as -1 (keys and values are     *)
(* non-negative in all models and traces).                                 *)
(*                                                                         *)
(* op records: [op |-> "insert", k, v] | [op |-> "remove"|"get"|"find"|    *)
(* "contains"|"next"|"prev", k] | [op |-> "min"|"max"|"clear"|"len"] |     *)
(* [op |-> "get_mut"|"index_mut", k, v] (write v through the reference if  *)
(* k is stored) | [op |-> "index", k] | [op |-> "is_empty"]                *)
(***************************************************************************)
EXTENDS Integers, Sequences, FiniteSets, TLC

None == -1
SetMin(S) == CHOOSE x \in S : \A y \in S : x <= y
SetMax(S) == CHOOSE x \in S : \A y \in S : x >= y
Upd(m, k, v) == [x \in (DOMAIN m) \cup {k} |-> IF x = k THEN v ELSE m[x]]
Del(m, k) == [x \in (DOMAIN m) \ {k} |-> m[x]]
Empty == <<>>

Ret(m, o) ==
  LET S == DOMAIN m IN
  CASE o.op = "insert"   -> IF o.k \in S THEN m[o.k] ELSE None          \* the replaced value
    [] o.op = "remove"   -> IF o.k \in S THEN m[o.k] ELSE None
    [] o.op = "get"      -> IF o.k \in S THEN m[o.k] ELSE None
    [] o.op = "find"     -> IF o.k \in S THEN o.k ELSE None
    [] o.op = "contains" -> IF o.k \in S THEN 1 ELSE 0
    [] o.op = "next"     -> (LET g == {x \in S : x > o.k} IN IF g = {} THEN None ELSE SetMin(g))
    [] o.op = "prev"     -> (LET g == {x \in S : x < o.k} IN IF g = {} THEN None ELSE SetMax(g))
    [] o.op = "min"      -> IF S = {} THEN None ELSE SetMin(S)
    [] o.op = "max"      -> IF S = {} THEN None ELSE SetMax(S)
    [] o.op = "clear"    -> None
    [] o.op = "len"      -> Cardinality(S)
    [] o.op = "is_empty" -> IF S = {} THEN 1 ELSE 0
    [] o.op \in {"get_mut", "index_mut"} -> IF o.k \in S THEN m[o.k] ELSE None   \* the value before the write
    [] o.op = "index"    -> IF o.k \in S THEN m[o.k] ELSE None                   \* (t[&k]: only asked for stored keys)

Eff(m, o) ==
  CASE o.op = "insert" -> Upd(m, o.k, o.v)
    [] o.op = "remove" -> Del(m, o.k)
    [] o.op = "clear"  -> Empty
    [] o.op \in {"get_mut", "index_mut"} -> IF o.k \in DOMAIN m THEN Upd(m, o.k, o.v) ELSE m   \* write through the reference
    [] OTHER -> m

\* value accompanying the key returned by next/prev (the map hands out both)
RetVal(m, o) == LET r == Ret(m, o) IN IF o.op \in {"next", "prev"} /\ r # None THEN m[r] ELSE None

\* consuming iteration: the remaining content is an interval of the sorted key sequence;
\* next() yields its least key, next_back() its greatest, size_hint is what remains
IterRet(S, back) == IF S = {} THEN None ELSE IF back THEN SetMax(S) ELSE SetMin(S)
IterEff(S, back) == IF S = {} THEN S ELSE S \ {IterRet(S, back)}

\* the derived forms nth(n) / nth_back(n) (and with them skip, step_by): n elements are consumed
\* and discarded, the next one is returned; past the end everything is consumed and None returned
RECURSIVE IterSkip(_, _, _)
IterSkip(S, n, back) == IF n = 0 \/ S = {} THEN S ELSE IterSkip(IterEff(S, back), n - 1, back)
IterNthRet(S, n, back) == IterRet(IterSkip(S, n, back), back)
IterNthEff(S, n, back) == IterEff(IterSkip(S, n, back), back)

\* invariants every implementation state must satisfy w.r.t. the abstract content
LenIsCard(m, len) == len = Cardinality(DOMAIN m)
=============================================================================
