--------------------------- MODULE FloatGeometry ---------------------------
(***************************************************************************)
(* Layer P, exact geometry ON THE FLOATING-POINT NUMBERS THEMSELVES.       *)
(*                                                                         *)
(* A coordinate is an IEEE-754 binary64 number given by its bit pattern, a *)
(* string of 16 hexadecimal digits (f32 coordinates are widened, which is  *)
(* exact).  Every finite double is an integer multiple of 2^-1074, so      *)
(* ZVal(h) = value(h) * 2^1074 is an INTEGER and every predicate below is an   *)
(* exact statement of integer arithmetic about the real numbers the        *)
(* library was given and returned - no tolerance, no rounding, nothing of  *)
(* the library's own arithmetic is modelled.                               *)
(*                                                                         *)
(* TLC cannot evaluate these definitions (its integers have 32 bits, its   *)
(* strings are atomic), so the five primitives FCmp, FOrient, FLineFar,    *)
(* FNearSeg, FAbsLeqPow2 and FAreaSgn are evaluated by the Java class       *)
(* FloatGeometry.java next to this file (TLC module override, compiled by  *)
(* bin/setup), which computes the SAME integer expressions with            *)
(* java.math.BigInteger.  Everything built on top of them (ray casting,    *)
(* membership in rings, polygons, operands, the laws) is ordinary TLA+      *)
(* evaluated by TLC.  bin/selftest checks the override against             *)
(* Geometry!Orient on integer-valued doubles.                              *)
(***************************************************************************)
EXTENDS Integers, Sequences, FiniteSets

HexChars == "0123456789abcdef"
DigitVal(ch) == (CHOOSE i \in 1..16 : HexChars[i] = ch) - 1
RECURSIVE NatOfHex(_)
NatOfHex(h) == IF Len(h) = 0 THEN 0 ELSE 16 * NatOfHex(SubSeq(h, 1, Len(h) - 1)) + DigitVal(h[Len(h)])

SignOf(h) == IF NatOfHex(h) >= 2^63 THEN -1 ELSE 1
BExp(h)   == (NatOfHex(h) \div 2^52) % 2048          \* biased exponent; 2047 (inf / nan) never occurs in a trace
Frac(h)   == NatOfHex(h) % 2^52
Mant(h)   == SignOf(h) * (IF BExp(h) = 0 THEN Frac(h) ELSE 2^52 + Frac(h))
Expo(h)   == (IF BExp(h) = 0 THEN 1 ELSE BExp(h)) - 1075
Finite(h) == Len(h) = 16 /\ BExp(h) < 2047
\* the number denoted by h, in units of 2^-1074: an integer
ZVal(h) == Mant(h) * 2^(Expo(h) + 1074)

SgnZ(x) == IF x > 0 THEN 1 ELSE IF x < 0 THEN -1 ELSE 0

\* points are pairs <<hx, hy>> of such strings
DX(p, q) == ZVal(q[1]) - ZVal(p[1])
DY(p, q) == ZVal(q[2]) - ZVal(p[2])
Det(p, q, w) == DX(p, q) * DY(p, w) - DY(p, q) * DX(p, w)

\* ---- the primitives (overridden by FloatGeometry.java, same integer expressions) ----
\* order of two numbers: -1, 0, 1
FCmp(a, b) == SgnZ(ZVal(a) - ZVal(b))
\* orientation of w against the directed line p -> q: 1 = left, -1 = right, 0 = exactly on the line
FOrient(p, q, w) == SgnZ(Det(p, q, w))
\* w is at least 2^d away from the LINE through p and q (p # q); d + 1074 >= 0
FLineFar(p, q, w, d) == Det(p, q, w) * Det(p, q, w) >= 2^(2 * (d + 1074)) * (DX(p, q) * DX(p, q) + DY(p, q) * DY(p, q))
\* v is at most 2^d away from the SEGMENT p q
FNearSeg(p, q, v, d) ==
  LET t == DX(p, q) * DX(p, v) + DY(p, q) * DY(p, v)
      len2 == DX(p, q) * DX(p, q) + DY(p, q) * DY(p, q)
      r2 == 2^(2 * (d + 1074))
  IN IF t <= 0 THEN DX(p, v) * DX(p, v) + DY(p, v) * DY(p, v) <= r2
     ELSE IF t >= len2 THEN DX(q, v) * DX(q, v) + DY(q, v) * DY(q, v) <= r2
     ELSE Det(p, q, v) * Det(p, q, v) <= r2 * len2
\* |x| <= 2^e
FAbsLeqPow2(x, e) == ZVal(x) <= 2^(e + 1074) /\ -ZVal(x) <= 2^(e + 1074)
\* sign of the signed area of a closed ring (sequence of points, first = last): 1 = counter-clockwise
RECURSIVE Shoelace(_, _)
Shoelace(ring, k) == IF k >= Len(ring) THEN 0
                     ELSE ZVal(ring[k][1]) * ZVal(ring[k + 1][2]) - ZVal(ring[k + 1][1]) * ZVal(ring[k][2]) + Shoelace(ring, k + 1)
FAreaSgn(ring) == SgnZ(Shoelace(ring, 1))

\* ---- ordinary TLA+ on top of the primitives (evaluated by TLC) ----
FSamePt(p, q) == FCmp(p[1], q[1]) = 0 /\ FCmp(p[2], q[2]) = 0
\* the edges of a ring crossed by the ray from w towards +x (half-open rule on y)
FRayHits(ring, w) ==
  {k \in 1..(Len(ring) - 1) :
     LET p == ring[k]  q == ring[k + 1]
         pb == FCmp(p[2], w[2]) <= 0
         qb == FCmp(q[2], w[2]) <= 0
     IN (pb /\ ~qb /\ FOrient(p, q, w) > 0) \/ (qb /\ ~pb /\ FOrient(p, q, w) < 0)}
FInRing(ring, w) == Cardinality(FRayHits(ring, w)) % 2 = 1
\* a polygon is its exterior ring minus its holes; a multipolygon the union of its polygons
FInPoly(poly, w) == Len(poly) >= 1 /\ FInRing(poly[1], w) /\ \A j \in 2..Len(poly) : ~FInRing(poly[j], w)
FPolysAt(mp, w) == {i \in 1..Len(mp) : FInPoly(mp[i], w)}
FInMp(mp, w) == FPolysAt(mp, w) # {}
\* operands are read by the even-odd rule over all their rings (the same thing for valid operands)
FRingIdx(mp) == UNION {{<<i, j>> : j \in 1..Len(mp[i])} : i \in 1..Len(mp)}
FInEvenOdd(mp, w) == Cardinality({x \in FRingIdx(mp) : FInRing(mp[x[1]][x[2]], w)}) % 2 = 1
\* the non-degenerate edges of a multipolygon
FEdges(mp) == UNION {{<<mp[x[1]][x[2]][k], mp[x[1]][x[2]][k + 1]>> : k \in 1..(Len(mp[x[1]][x[2]]) - 1)} : x \in FRingIdx(mp)}
FProperEdges(mp) == {e \in FEdges(mp) : ~FSamePt(e[1], e[2])}
\* w is at least 2^d away from the line of every edge in E: "not within rounding distance of an input edge"
FClear(E, w, d) == \A e \in E : FLineFar(e[1], e[2], w, d)
=============================================================================
