SPECIFICATION Spec
CONSTANTS
  N = 4
  Vals = {1, 2}
  GRAPH = FALSE
  RecursiveTeardown = FALSE
INVARIANTS
  C17_RefinesSortedMap
  C17_BST
  C18_StackBounded
  GraphLine
CHECK_DEADLOCK FALSE
