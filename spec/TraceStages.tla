----------------------------- MODULE TraceStages -----------------------------
(***************************************************************************)
(* Trace specification for the public stages: one recorded run (queue      *)
(* filling, subdivision, order matrices) per initial state, judged by the  *)
(* contracts of Stages.tla.  `Clauses` selects which contracts a check     *)
(* evaluates: "fq" "sub" (C13), "cls" (C14), "evo" "sego" (C15).           *)
(***************************************************************************)
EXTENDS Stages, Json, IOUtils

CONSTANT Clauses

Runs == ndJsonDeserialize(IOEnv.TRACEFILE)

VARIABLES r, bad, done
vars == <<r, bad, done>>

Init == r \in 1..Len(Runs) /\ bad = {} /\ done = FALSE

FqTable(R) == LET n == Len(R.fq.ev)
              IN [i \in {EId(R.fq.ev[k]) : k \in 1..n} |-> R.fq.ev[CHOOSE k \in 1..n : EId(R.fq.ev[k]) = i]]

Judge ==
  /\ ~done /\ done' = TRUE /\ r' = r
  /\ LET R == Runs[r]
         ok == R.sub.outcome = "ok"
         exact == OctiS(R.A) /\ OctiS(R.B)
         f(name, cond) == IF name \in Clauses /\ ~cond THEN {name} ELSE {}
         v == f("fq", FillQueueOK(R.fq, R.A, R.B))
              \cup f("sub", ok /\ SubdivisionOK(R.op, R.sub, R.A, R.B, exact))
              \cup f("cls", ok => ClassificationOK(R.op, R.sub, R.fq, R.A, R.B, TRUE))
              \cup (IF "cls" \in Clauses /\ ok /\ ClassificationOK(R.op, R.sub, R.fq, R.A, R.B, TRUE)
                                   /\ ~ClassificationOK(R.op, R.sub, R.fq, R.A, R.B, FALSE) THEN {"cls_stale_pir"} ELSE {})
              \cup f("evo", EventOrderOK(FqTable(R), R.cmp0) /\ (ok => EventOrderOK(R.sub.ev, R.cmp1)))
              \cup f("sego", SegmentOrderOK(FqTable(R), R.seg0, FALSE) /\ (ok => SegmentOrderOK(R.sub.ev, R.seg, FALSE)))
              \cup (IF "sego" \in Clauses /\ SegmentOrderOK(FqTable(R), R.seg0, FALSE) /\ (ok => SegmentOrderOK(R.sub.ev, R.seg, FALSE))
                       /\ ~(SegmentOrderOK(FqTable(R), R.seg0, TRUE) /\ (ok => SegmentOrderOK(R.sub.ev, R.seg, TRUE)))
                    THEN {"sego_stacked_vertical"} ELSE {})
     IN /\ bad' = v
        /\ \A x \in v : PrintT(<<"STAGEFAIL", x, R.rid>>)

Done == done /\ UNCHANGED vars
Next == Judge \/ Done
Spec == Init /\ [][Next]_vars

C13_QueueFilling == "fq" \notin bad
C13_PlanarSubdivision == "sub" \notin bad
C14_Classification == "cls" \notin bad
C15_EventOrder == "evo" \notin bad
C15_SegmentOrder == "sego" \notin bad
N3_NoStalePrevInResult == "cls_stale_pir" \notin bad
N4_StackedVerticalsByPosition == "sego_stacked_vertical" \notin bad
=============================================================================
