----------------------------- MODULE TraceStack -----------------------------
(***************************************************************************)
(* Layer P contract for the large scenarios (C18, C03): every scenario     *)
(* event {scenario, n, stack_kb, hwm, exit, size, popped} recorded from a  *)
(* child process must have completed, with a stack high-water mark below a *)
(* budget that does NOT depend on n, and (Boolean scenarios) a number of   *)
(* processed sweep events within the quadratic bound.                      *)
(* The design requirement behind it is explicit in SplayTree.tla /         *)
(* MC_Splay.tla: every operation, teardown included, needs O(1) frames.    *)
(***************************************************************************)
EXTENDS Integers, Sequences, TLC, Json, IOUtils

CONSTANT StackBudget        \* bytes

Evs == ndJsonDeserialize(IOEnv.TRACEFILE)

VARIABLES i, bad
vars == <<i, bad>>

Init == i \in 1..Len(Evs) /\ bad = {}

Completes(e) == e.exit = "ok"
StackOK(e) == e.hwm <= StackBudget
\* n counted in input edges (size); written with a division to stay inside 32 bits
EventsOK(e) == e.popped = 0 \/ e.size = 0 \/ (e.popped \div e.size) <= 4 * e.size + 2

Judge == /\ bad = {} /\ i # 0
         /\ LET e == Evs[i]
                v == (IF ~Completes(e) THEN {"exit"} ELSE {})
                     \cup (IF Completes(e) /\ ~StackOK(e) THEN {"stack"} ELSE {})
                     \cup (IF Completes(e) /\ ~EventsOK(e) THEN {"events"} ELSE {})
            IN /\ bad' = v
               /\ \A x \in v : PrintT(<<"STACKFAIL", x, i>>)
         /\ i' = 0
Done == i = 0 /\ UNCHANGED vars
Next == Judge \/ Done
Spec == Init /\ [][Next]_vars

C18_Completes == "exit" \notin bad
C18_StackIndependentOfSize == "stack" \notin bad
C03_EventBound == "events" \notin bad
=============================================================================
