----------------------------- MODULE TraceStack -----------------------------
(***************************************************************************)
(* Layer P contract for the large scenarios (C18, C03): every scenario     *)
(* event {scenario, n, stack_kb, hwm, exit, size, popped} recorded from a  *)
(* child process must have completed, with a stack high-water mark below a *)
(* budget that does NOT depend on n, and (Boolean scenarios) a number of   *)
(* processed sweep events within the quadratic bound.                      *)
(* The design requirement behind it is explicit in SplayTree.tla /         *)
(* MC_Splay.tla: every operation, teardown included, needs O(1) frames.    *)
(***************************************************************************)
EXTENDS Integers, Sequences, TLC, Json, IOUtils

CONSTANT StackBudget        \* bytes

Evs == ndJsonDeserialize(IOEnv.TRACEFILE)

VARIABLES i, bad
vars == <<i, bad>>

Init == i \in 1..Len(Evs) /\ bad = {}

Completes(e) == e.exit = "ok"
StackOK(e) == e.hwm <= StackBudget
\* n counted in input edges (size); written with a division to stay inside 32 bits
EventsOK(e) == e.popped = 0 \/ e.size = 0 \/ (e.popped \div e.size) <= 4 * e.size + 2

\* Scenarios with a closed-form result: two crossing combs with n teeth each ("combx"; "combxfar":
\* the first comb carries one more far-away rectangle of area 6).  The n^2 tooth crossings are
\* squares of area 4; the comb has area 8n^2 + 16n - 4.  What the real code returned is projected to
\* (number of polygons, twice the area): C01 and C09 at a size the region oracle cannot reach.
IsComb(e) == e.scenario \in {"bool:combx:int", "bool:combx:union", "bool:combx:diff", "bool:combx:xor",
                              "bool:combxfar:int", "bool:combxfar:union", "bool:combxfar:diff", "bool:combxfar:xor"}
Far(e) == e.scenario \in {"bool:combxfar:int", "bool:combxfar:union", "bool:combxfar:diff", "bool:combxfar:xor"}
OpOf(e) == CASE e.scenario \in {"bool:combx:int", "bool:combxfar:int"} -> "int"
             [] e.scenario \in {"bool:combx:union", "bool:combxfar:union"} -> "union"
             [] e.scenario \in {"bool:combx:diff", "bool:combxfar:diff"} -> "diff"
             [] OTHER -> "xor"
CombArea(n) == 8*n*n + 16*n - 4
ExpectedPolys(e) == LET n == e.n  f == IF Far(e) THEN 1 ELSE 0 IN
                    CASE OpOf(e) = "int" -> n*n [] OpOf(e) = "union" -> 1 + f
                      [] OpOf(e) = "diff" -> n*n + 1 + f [] OTHER -> 2*n*n + 2 + f
ExpectedArea2(e) == LET n == e.n  f == IF Far(e) THEN 12 ELSE 0 IN
                    CASE OpOf(e) = "int" -> 8*n*n [] OpOf(e) = "union" -> 2*(2*CombArea(n) - 4*n*n) + f
                      [] OpOf(e) = "diff" -> 2*(CombArea(n) - 4*n*n) + f [] OTHER -> 2*(2*CombArea(n) - 8*n*n) + f
\* "nest": n concentric square rings (ring k: outer half-width 4(n-k), hole half-width 4(n-k)-2) against the square [-1,1]^2
\* inside the innermost hole: result contours nested 2n deep.  Twice the area of the rings is 64 n^2 + 32 n.
IsNest(e) == e.scenario \in {"bool:nest:int", "bool:nest:union", "bool:nest:diff", "bool:nest:xor"}
NestPolys(e) == CASE e.scenario = "bool:nest:int" -> 0 [] e.scenario = "bool:nest:diff" -> e.n [] OTHER -> e.n + 1
NestArea2(e) == CASE e.scenario = "bool:nest:int" -> 0 [] e.scenario = "bool:nest:diff" -> 64*e.n*e.n + 32*e.n [] OTHER -> 64*e.n*e.n + 32*e.n + 8
ShapeOK(e) == /\ IsComb(e) => (e.polys = ExpectedPolys(e) /\ e.area2 = ExpectedArea2(e))
              /\ IsNest(e) => (e.polys = NestPolys(e) /\ e.area2 = NestArea2(e))

Judge == /\ bad = {} /\ i # 0
         /\ LET e == Evs[i]
                v == (IF ~Completes(e) THEN {"exit"} ELSE {})
                     \cup (IF Completes(e) /\ ~StackOK(e) THEN {"stack"} ELSE {})
                     \cup (IF Completes(e) /\ ~EventsOK(e) THEN {"events"} ELSE {})
                     \cup (IF Completes(e) /\ ~ShapeOK(e) THEN {"shape"} ELSE {})
            IN /\ bad' = v
               /\ \A x \in v : PrintT(<<"STACKFAIL", x, i>>)
         /\ i' = 0
Done == i = 0 /\ UNCHANGED vars
Next == Judge \/ Done
Spec == Init /\ [][Next]_vars

C18_Completes == "exit" \notin bad
C18_StackIndependentOfSize == "stack" \notin bad
C03_EventBound == "events" \notin bad
C01_LargeResultShape == "shape" \notin bad
=============================================================================
