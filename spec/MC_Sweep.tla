------------------------------ MODULE MC_Sweep ------------------------------
(***************************************************************************)
(* Exhaustive check of Layer M (Sweep.tla) against Layer P on a            *)
(* TLC-enumerated family of operand pairs: every input of the family is    *)
(* one deterministic behaviour from Fill to done.  At the end the Layer P  *)
(* contracts are evaluated on what the model computed: result region       *)
(* (C01), polygon set (C02), geometry from inputs (C04), event bound and   *)
(* no panic branch (C03), subdivision (C13), classification (C14) - the    *)
(* same operators that judge the real code's traces.  Each behaviour is    *)
(* printed as a REPLAY line and stepped through the real code              *)
(* (bin/check Mxx / `vh replay-sweep`): a difference is SPEC-DRIFT.        *)
(***************************************************************************)
EXTENDS Sweep, Stages, Json, IOUtils

CONSTANTS Family,       \* "tri" | "pair" | "pairB" | "nest" | "nest2" | "isl2" | "star3" | "quad" | "file"
          N, L,         \* lattice 0..N scaled by L
          Stride, Offset,   \* sub-sampling of the family (Stride = 1: everything)
          REPLAY        \* print REPLAY lines

VARIABLES labs,
          strictcls     \* does the TRANSCRIPTION satisfy the strict reading of C14's last clause (no stale prev_in_result) on this input?
mcvars == <<svars, labs, strictcls>>

Pts == {<<L*x, L*y>> : x \in 0..N, y \in 0..N}
Tris == { t \in Pts \X Pts \X Pts : /\ Orient(t[1], t[2], t[3]) > 0 /\ Lex(t[1], t[2]) /\ Lex(t[1], t[3]) }
TriRing(t) == <<t[1], t[2], t[3], t[1]>>
TriMp(t) == << <<TriRing(t)>> >>
TriSegs(t) == {Norm(<<t[1], t[2]>>), Norm(<<t[2], t[3]>>), Norm(<<t[3], t[1]>>)}
\* strictly inside a CCW triangle, for a point given in tripled coordinates against tripled vertices
Inside3(p3, t) == /\ Orient(<<3*t[1][1], 3*t[1][2]>>, <<3*t[2][1], 3*t[2][2]>>, p3) > 0
                  /\ Orient(<<3*t[2][1], 3*t[2][2]>>, <<3*t[3][1], 3*t[3][2]>>, p3) > 0
                  /\ Orient(<<3*t[3][1], 3*t[3][2]>>, <<3*t[1][1], 3*t[1][2]>>, p3) > 0
Cen3(t) == <<t[1][1] + t[2][1] + t[3][1], t[1][2] + t[2][2] + t[3][2]>>
\* two triangles may be parts of one valid multipolygon: interiors disjoint, touching only in points
Compatible(t, u) ==
  /\ t # u
  /\ \A e \in TriSegs(t) : \A f \in TriSegs(u) : ~ProperCross(e, f) /\ ~CollinearOverlap(e, f)
  /\ \A k \in 1..3 : ~Inside3(<<3*t[k][1], 3*t[k][2]>>, u) /\ ~Inside3(<<3*u[k][1], 3*u[k][2]>>, t)
  /\ ~Inside3(Cen3(t), u) /\ ~Inside3(Cen3(u), t)
\* simple lattice quadrilaterals (convex or not), CCW, starting at the least vertex
Quads == { q \in Pts \X Pts \X Pts \X Pts :
             /\ Cardinality({q[1], q[2], q[3], q[4]}) = 4
             /\ Lex(q[1], q[2]) /\ Lex(q[1], q[3]) /\ Lex(q[1], q[4])
             /\ Cross(q[1], q[2]) + Cross(q[2], q[3]) + Cross(q[3], q[4]) + Cross(q[4], q[1]) > 0
             /\ SegInter(q[1], q[2], q[3], q[4]).k = "none" /\ SegInter(q[2], q[3], q[4], q[1]).k = "none"
             /\ Orient(q[1], q[2], q[3]) # 0 /\ Orient(q[2], q[3], q[4]) # 0 /\ Orient(q[3], q[4], q[1]) # 0 /\ Orient(q[4], q[1], q[2]) # 0 }
QuadMp(q) == << << <<q[1], q[2], q[3], q[4], q[1]>> >> >>

RECURSIVE HashSeq(_, _)
HashSeq(s, k) == IF k > Len(s) THEN 0 ELSE (s[k][1] \div L) * (3*k + 1) + (s[k][2] \div L) * (5*k + 2) + HashSeq(s, k + 1)
H(t) == HashSeq(t, 1)
Sel2(a, b) == Stride = 1 \/ ((H(a) * 31 + H(b)) % Stride) = Offset
Sel3(a, a2, b) == Stride = 1 \/ ((H(a) * 31 + H(a2) * 17 + H(b)) % Stride) = Offset

FrLo == 0 - L
FrHi == (N + 1) * L
Frame == << << << <<FrLo, FrLo>>, <<FrHi, FrLo>>, <<FrHi, FrHi>>, <<FrLo, FrHi>>, <<FrLo, FrLo>> >> >> >>
Fr2Lo == 0 - 2 * L
Fr2Hi == (N + 2) * L
Annulus == << << <<<<Fr2Lo, Fr2Lo>>, <<Fr2Hi, Fr2Lo>>, <<Fr2Hi, Fr2Hi>>, <<Fr2Lo, Fr2Hi>>, <<Fr2Lo, Fr2Lo>>>>,
                 <<<<FrLo, FrLo>>, <<FrLo, FrHi>>, <<FrHi, FrHi>>, <<FrHi, FrLo>>, <<FrLo, FrLo>>>> >> >>
Ops == {"int", "union", "diff", "xor"}
\* three triangles through one common least vertex (six left events in one point), unordered
TKey(t) == ((t[2][1] \div L) * (N + 1) + (t[2][2] \div L)) * (N + 1) * (N + 1) + (t[3][1] \div L) * (N + 1) + (t[3][2] \div L)
Rev(t) == <<t[1], t[3], t[2], t[1]>>
FrameHoles(a, a2, a3) == << <<Frame[1][1], Rev(a), Rev(a2), Rev(a3)>> >>

\* Family "file": the inputs of ANY generator family of the harness (one JSON line {A, B, op} per input,
\* file named by the environment variable MCINPUTS; rings closed, integer coordinates with integral
\* meeting points).  This is how the enumerated families of gen.rs (every pair of subsets of a small
\* triangulated lattice) and the structured families (pinch, lamina, ...) reach Layer M: M |= P is
\* checked on exactly the inputs the real code is run on, and every behaviour is replayed.
FileInputs == ndJsonDeserialize(IOEnv.MCINPUTS)

Init ==
  /\ labs = <<>> /\ strictcls = TRUE
  /\ CASE Family = "tri"  -> \E a \in Tris : \E b \in Tris : Sel2(a, b) /\ \E o \in Ops : SInit(TriMp(a), TriMp(b), o)
       [] Family = "pair" -> \E a \in Tris : \E a2 \in Tris : \E b \in Tris :
                                Lex(a[1], a2[1]) /\ Sel3(a, a2, b) /\ Compatible(a, a2)
                                /\ \E o \in Ops : SInit(TriMp(a) \o TriMp(a2), TriMp(b), o)
       [] Family = "pairB" -> \E a \in Tris : \E a2 \in Tris : \E b \in Tris :
                                Lex(a[1], a2[1]) /\ Sel3(a, a2, b) /\ Compatible(a, a2)
                                /\ \E o \in Ops : SInit(TriMp(b), TriMp(a) \o TriMp(a2), o)
       [] Family = "nest" -> \E a \in Tris : \E b \in Tris :
                                Sel2(a, b) /\ (\A k \in 1..3 : \A m \in 1..3 : Orient(a[m], a[(m % 3) + 1], b[k]) >= 0)
                                /\ \E o \in Ops : (SInit(TriMp(a), TriMp(b), o) \/ SInit(TriMp(b), TriMp(a), o))
       [] Family = "nest2" -> \E b \in Tris : \E b2 \in Tris :      \* two parts inside a fixed frame: holes, sibling holes
                                Lex(b[1], b2[1]) /\ Sel2(b, b2) /\ Compatible(b, b2)
                                /\ \E o \in Ops : (SInit(Frame, TriMp(b) \o TriMp(b2), o) \/ SInit(TriMp(b) \o TriMp(b2), Frame, o))
       [] Family = "star3" -> \E a \in Tris :
                                \E a2 \in {t \in Tris : t[1] = a[1] /\ TKey(a) < TKey(t) /\ Compatible(a, t)} :
                                \E a3 \in {t \in Tris : t[1] = a[1] /\ TKey(a2) < TKey(t) /\ Compatible(a, t) /\ Compatible(a2, t)} :
                                \E b \in {t \in Tris : Sel3(a, a3, t)} :
                                \E o \in Ops : \/ SInit(TriMp(a) \o TriMp(a2) \o TriMp(a3), TriMp(b), o)
                                                \/ SInit(TriMp(b), TriMp(a) \o TriMp(a2) \o TriMp(a3), o)
                                                \/ SInit(FrameHoles(a, a2, a3), TriMp(b), o)
       [] Family = "isl2" -> \E b \in Tris : \E b2 \in Tris :      \* two parts inside the HOLE of an annulus: islands in a hole, stacked or side by side
                                Lex(b[1], b2[1]) /\ Sel2(b, b2) /\ Compatible(b, b2)
                                /\ \E o \in Ops : (SInit(Annulus, TriMp(b) \o TriMp(b2), o) \/ SInit(TriMp(b) \o TriMp(b2), Annulus, o))
       [] Family = "quad" -> \E a \in Quads : \E b \in Tris : Sel2(a, b) /\ \E o \in Ops : SInit(QuadMp(a), TriMp(b), o)
       [] Family = "file" -> \E i \in 1..Len(FileInputs) : SInit(FileInputs[i].A, FileInputs[i].B, FileInputs[i].op)


\* ---------------------------------------------------------------- M |= P
Done == pc = "done"
NEdgesIn == Cardinality(EdgeRecs(A)) + Cardinality(EdgeRecs(B))
Ein == Segs(EdgeRecs(A)) \cup Segs(EdgeRecs(B))
ExprAB == <<"o", op, <<"b", "A">>, <<"b", "B">>>>
RecsAB == [n \in {"A", "B"} |-> IF n = "A" THEN EdgeRecs(A) ELSE EdgeRecs(B)]
TookShortcut == Len(labs) > 0 /\ labs[Len(labs)] = <<"trivial">>

\* C01 / C09: the region is right, whichever shortcuts are enabled
M_ResultRegion == Done => RegionMatches(out, ExprAB, RecsAB, {})
\* C02
M_Nesting == (Done /\ ~TookShortcut) => PolygonSetValid(out, Ein)
\* C04: closed CCW rings with >= 3 vertices, edges on input edges, vertices arrangement vertices
M_Provenance == (Done /\ ~TookShortcut) =>
   \A i \in 1..Len(out) : \A j \in 1..Len(out[i]) :
      LET ring == out[i][j] IN
      /\ Len(ring) >= 4 /\ ring[1] = ring[Len(ring)] /\ Area2(ring) > 0
      /\ \A k \in 1..(Len(ring)-1) : \E f \in Ein : OnSeg(ring[k], f) /\ OnSeg(ring[k+1], f)
\* C03: bounded number of events, no panic branch, no invalid context (a debug assertion in the code)
M_EventBound == Len(sorted) <= 4 * NEdgesIn * NEdgesIn + 2 * NEdgesIn
IsPanic(l) == (Len(l) = 3 /\ l[2] = "PANIC-missing") \/ (Len(l) = 2 /\ l[2] = "PANIC-lower-id")
M_NoPanic == \A k \in 1..Len(labs) : ~IsPanic(labs[k])
M_ContextValid == pc = "connect" => \A k \in 1..Len(res) :
                     (k \in processed /\ E[res[k]].left /\ E[res[k]].pir # 0) => TRUE
\* C13 / C14 through the Layer P stage contracts, on the model's own events
EtCode(x) == CASE x = "N" -> 0 [] x = "NC" -> 1 [] x = "ST" -> 2 [] x = "DT" -> 3
Tup(i) == <<i, E[i].p[1], E[i].p[2], 0, IF E[i].left THEN 1 ELSE 0, E[i].other, IF E[i].subj THEN 1 ELSE 0, E[i].cid,
            IF E[i].ext THEN 1 ELSE 0, EtCode(E[i].et), IF E[i].io THEN 1 ELSE 0, IF E[i].oio THEN 1 ELSE 0, E[i].rt, E[i].pir>>
RestSeq == SetToSortSeq(Q, LAMBDA i, j : EvBefore(E, i, j))
SubRec == [outcome |-> "ok", popped |-> Len(sorted), sorted |-> sorted, rest |-> RestSeq, ev |-> [i \in 1..Len(E) |-> Tup(i)]]
BoxRec(mp) == LET b == BoxOf(mp) IN IF b = <<>> THEN <<>> ELSE <<b[1], b[2], b[3], b[4], 0>>
FqRec == [sbb |-> BoxRec(A), cbb |-> BoxRec(B), ev |-> <<>>]
\* (strictcls is fixed when the sweep has ended, pc = "order": the moment the public `subdivide` returns)
Next == /\ SNext /\ labs' = Append(labs, lab')
        /\ strictcls' = IF pc = "order" /\ UseShortcuts THEN ClassificationOK(op, SubRec, FqRec, A, B, FALSE) ELSE strictcls
Spec == Init /\ [][Next]_mcvars
AtSweepEnd == pc \in {"order", "connect", "done"} /\ ~TookShortcut /\ UseShortcuts
M_Subdivision == (pc = "order" /\ UseShortcuts) => SubdivisionOK(op, SubRec, A, B, TRUE)
M_Classification == (pc = "order" /\ UseShortcuts) => ClassificationOK(op, SubRec, FqRec, A, B, TRUE)
\* at every intermediate state the status line is sorted by the true vertical order at the sweep position
M_StatusLineSorted ==
  pc = "sweep" => \A i \in 1..(Len(SL)-1) :
     LET s == SegOf(SubRec.ev, SL[i])  t == SegOf(SubRec.ev, SL[i+1])  sep == Separation(s, t)
         x == SegInter(s[1], s[2], t[1], t[2])
     IN (x.k # "overlap" /\ ~(x.k = "point" /\ InteriorOf(x.p, s) /\ InteriorOf(x.p, t))) => ~(sep[2] /\ ~sep[1])

\* ---------------------------------------------------------------- replay
ReplayLine == (REPLAY /\ Done) =>
   PrintT(<<"REPLAY", ToJson([A |-> A, B |-> B, op |-> op, labs |-> labs, out |-> out, strictcls |-> strictcls,
                               sorted |-> [k \in 1..Len(sorted) |-> Tup(sorted[k])], ev |-> [i \in 1..Len(E) |-> Tup(i)]])>>)
=============================================================================
