------------------------------ MODULE TraceOps ------------------------------
(***************************************************************************)
(* Trace specification: sessions recorded from the real library (one       *)
(* ndjson line per session, file named by the environment variable         *)
(* TRACEFILE) are replayed through the actions of BoolOps.  Every session   *)
(* is its own initial state, so TLC validates a whole batch in parallel.   *)
(* A session is never dropped silently: a step whose laws fail sets `bad`  *)
(* (named invariants below) and prints a LAWFAIL line naming the law, the  *)
(* session and the event; validation of that session stops there.          *)
(***************************************************************************)
EXTENDS BoolOps, Json, IOUtils

Sessions == ndJsonDeserialize(IOEnv.TRACEFILE)

VARIABLES r, l
vars == <<val, meta, log, bad, r, l>>

Events == Sessions[r].events
Ev == Events[l]

MetaOf(e) == [rel |-> e.rel,
              of |-> IF e.rel = "base" THEN "" ELSE e.of,
              frame |-> e.k,
              expr |-> <<"b", e.name>>,
              sk |-> IF e.rel = "scale" THEN e.sk ELSE 0,
              d |-> IF e.rel = "translate" THEN e.d ELSE <<0, 0>>,
              t |-> IF e.rel = "sym" THEN e.t ELSE 0,
              big |-> e.big, touch |-> e.touch, opaque |-> e.opaque, nedges |-> e.nedges,
              wit |-> IF "wit" \in DOMAIN e THEN e.wit ELSE 0,
              fw |-> IF "fw" \in DOMAIN e THEN e.fw ELSE FALSE,
              smp |-> IF "smp" \in DOMAIN e THEN e.smp ELSE <<>>]

Init == r \in 1..Len(Sessions) /\ l = 1 /\ BInit

Active == l <= Len(Events) /\ bad = {}

TraceDefine == /\ Active /\ Ev.ev = "def"
               /\ Define(Ev.name, Ev.mp, MetaOf(Ev))
               /\ \A v \in bad' : PrintT(<<"LAWFAIL", v, Sessions[r].sid, l>>)
               /\ l' = l + 1 /\ r' = r

TraceCall == /\ Active /\ Ev.ev = "call"
             /\ Call(Ev)
             /\ \A v \in bad' : PrintT(<<"LAWFAIL", v, Sessions[r].sid, l>>)
             /\ l' = l + 1 /\ r' = r

\* g unobserved calls on fixed small operands between two observed calls: equal operands, so
\* all of them must have returned the same value (the recorder counts distinct result digests)
TraceFiller == /\ Active /\ Ev.ev = "filler"
               /\ bad' = IF "C12" \in Laws /\ Ev.n > 0 /\ Ev.distinct # 1 THEN {"C12"} ELSE {}
               /\ \A v \in bad' : PrintT(<<"LAWFAIL", v, Sessions[r].sid, l>>)
               /\ UNCHANGED <<val, meta, log>>
               /\ l' = l + 1 /\ r' = r

Done == ~Active /\ UNCHANGED vars

Next == TraceDefine \/ TraceCall \/ TraceFiller \/ Done
TraceSpec == Init /\ [][Next]_vars

\* every event of every session was consumed (or the session stopped at a reported failure)
Consumed == l <= Len(Events) + 1
=============================================================================
