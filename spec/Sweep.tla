------------------------------- MODULE Sweep -------------------------------
(***************************************************************************)
(* Layer M: the Martinez-Rueda sweep of lib/src/boolean, transcribed in    *)
(* exact integer arithmetic, one action per critical step:                 *)
(*   Fill (Init) -> Trivial | Pop* -> (Break) -> Order -> Contour* ->      *)
(*   Assemble -> done.                                                     *)
(* Operators follow the code branch for branch: EvBefore (sweep_event.rs   *)
(* Ord), SegCmp (compare_segments.rs), Intersection                        *)
(* (segment_intersection.rs), Divide (divide_segment.rs), PI               *)
(* (possible_intersection.rs), Fields / InRes / Trans (compute_fields.rs), *)
(* OrderEvents / IterMap / NextPos / InitContext (connect_edges.rs),       *)
(* Assemble + TrivialResult (mod.rs).  `lab` records which branches the    *)
(* last step took, for coverage and for lock-step comparison with the      *)
(* hooks of the real code.  Every model event keeps the identity it has in *)
(* the code: its index in creation order.                                  *)
(*                                                                         *)
(* The module is checked against Layer P (Oracle) in MC_Sweep.tla.         *)
(***************************************************************************)
EXTENDS Oracle

CONSTANT UseShortcuts     \* FALSE: never take the bounding-box shortcut / the early break (C09: must not matter)

\* ---------------------------------------------------------------- events
Ev(p, left, other, subj, cid, ext) ==
  [p |-> p, left |-> left, other |-> other, subj |-> subj, cid |-> cid, ext |-> ext,
   et |-> "N", io |-> FALSE, oio |-> FALSE, rt |-> 0, pir |-> 0, opos |-> 0, ocid |-> -1]

IsBelow(E, a, p) == IF E[a].left THEN Orient(E[a].p, E[E[a].other].p, p) > 0
                    ELSE Orient(E[E[a].other].p, E[a].p, p) > 0
IsVertical(E, a) == E[a].p[1] = E[E[a].other].p[1]

\* a.is_before(b): sweep_event.rs Ord (inverted for the max-heap)
EvBefore(E, a, b) ==
  LET p1 == E[a].p p2 == E[b].p IN
  IF p1[1] # p2[1] THEN p1[1] < p2[1]
  ELSE IF p1[2] # p2[2] THEN p1[2] < p2[2]
  ELSE IF E[a].left # E[b].left THEN ~E[a].left
  ELSE IF Orient(p1, E[E[a].other].p, E[E[b].other].p) # 0 THEN IsBelow(E, a, E[E[b].other].p)
  ELSE ~(~E[a].subj /\ E[b].subj)

\* ---------------------------------------------------- segment_intersection
Intersection(a1, a2, b1, b2) ==
  LET boxOK == /\ Mx(Mn(a1[1],a2[1]), Mn(b1[1],b2[1])) <= Mn(Mx(a1[1],a2[1]), Mx(b1[1],b2[1]))
               /\ Mx(Mn(a1[2],a2[2]), Mn(b1[2],b2[2])) <= Mn(Mx(a1[2],a2[2]), Mx(b1[2],b2[2]))
      va == Sub(a2, a1) vb == Sub(b2, b1) e == Sub(b1, a1)
      k == Cross(va, vb)
      none == [k |-> "none"]
  IN IF ~boxOK THEN none
     ELSE IF k # 0 THEN
        LET sN == Cross(e, vb) tN == Cross(e, va)
            out(x) == IF k > 0 THEN x < 0 \/ x > k ELSE x > 0 \/ x < k
        IN IF out(sN) \/ out(tN) THEN none ELSE [k |-> "point", p |-> Along(a1, va, sN, k)]
     ELSE IF Cross(e, va) # 0 THEN none
     ELSE LET den == Dot(va, va) saN == Dot(va, e) sbN == saN + Dot(va, vb)
              smin == Mn(saN, sbN) smax == Mx(saN, sbN)
          IN IF smin <= den /\ smax >= 0 THEN
                IF smin = den THEN [k |-> "point", p |-> a2]
                ELSE IF smax = 0 THEN [k |-> "point", p |-> a1]
                ELSE [k |-> "overlap"]
             ELSE none

\* ------------------------------------------------------- compare_segments
SegCmp(E, a, b) ==
  IF a = b THEN "E" ELSE
  LET aFirst == EvBefore(E, a, b)
      old == IF aFirst THEN a ELSE b   new == IF aFirst THEN b ELSE a
      res(c) == IF aFirst THEN (IF c THEN "L" ELSE "G") ELSE (IF c THEN "G" ELSE "L")
      oldP == E[old].p oldR == E[E[old].other].p newP == E[new].p newR == E[E[new].other].p
      saL == Orient(oldP, oldR, newP)  saR == Orient(oldP, oldR, newR)
      coll == IF E[old].subj = E[new].subj
              THEN (IF oldP = newP THEN res(E[old].cid < E[new].cid) ELSE res(TRUE))
              ELSE res(E[old].subj)
  IN IF saL # 0 \/ saR # 0 THEN
        IF oldP = newP THEN res(IsBelow(E, old, newR))
        ELSE IF oldP[1] = newP[1] THEN res(oldP[2] < newP[2])
        ELSE IF (saL > 0) = (saR > 0) THEN res(saL > 0)
        ELSE IF saL = 0 THEN res(saR > 0)
        ELSE LET inter == Intersection(oldP, oldR, newP, newR) IN
             IF inter.k = "none" THEN res(saL > 0)
             ELSE IF inter.k = "point" THEN (IF inter.p = newP THEN res(saR > 0) ELSE res(saL > 0))
             ELSE coll
     ELSE coll

\* --------------------------------------------------------- divide_segment
\* returns [ev, q, swap]; new events get the next two identities (r, then l) as in the code
Divide(E, Q, sl, p) ==
  LET sr == E[sl].other
      n == Len(E)
      r == Ev(p, FALSE, sl, E[sl].subj, E[sl].cid, TRUE)
      l == Ev(p, TRUE, sr, E[sl].subj, E[sl].cid, TRUE)
      E1 == E \o <<r, l>>
      swap == ~EvBefore(E1, n+2, sr)            \* corner case 2: the right part is "turned around"
      E2 == IF swap THEN [E1 EXCEPT ![sr].left = TRUE, ![n+2].left = FALSE] ELSE E1
      E3 == [E2 EXCEPT ![sl].other = n+1, ![sr].other = n+2]
  IN [ev |-> E3, q |-> Q \cup {n+1, n+2}, swap |-> swap]

\* -------------------------------------------------- possible_intersection
\* returns [ev, q, code, br]   (br = the branch taken, for coverage)
PI(E, Q, s1, s2) ==
  LET o1 == E[s1].other  o2 == E[s2].other
      inter == Intersection(E[s1].p, E[o1].p, E[s2].p, E[o2].p)
      R(ev, q, c, br) == [ev |-> ev, q |-> q, code |-> c, br |-> br]
  IN IF inter.k = "none" THEN R(E, Q, 0, "none")
     ELSE IF inter.k = "point" THEN
        IF E[s1].p = E[s2].p \/ E[o1].p = E[o2].p THEN R(E, Q, 0, "endpoint")
        ELSE LET d1 == E[s1].p # inter.p /\ E[o1].p # inter.p
                 d2 == E[s2].p # inter.p /\ E[o2].p # inter.p
                 D1 == IF d1 THEN Divide(E, Q, s1, inter.p) ELSE [ev |-> E, q |-> Q, swap |-> FALSE]
                 D2 == IF d2 THEN Divide(D1.ev, D1.q, s2, inter.p) ELSE D1
             IN R(D2.ev, D2.q, 1, IF d1 /\ d2 THEN "cross" ELSE IF d1 THEN "split1" ELSE IF d2 THEN "split2" ELSE "touch")
     ELSE IF E[s1].subj = E[s2].subj THEN R(E, Q, 0, "overlap-same")
     ELSE
       LET leftCo == E[s1].p = E[s2].p
           rightCo == E[o1].p = E[o2].p
           evL == IF leftCo THEN <<>> ELSE IF ~EvBefore(E, s1, s2) THEN << <<s2,o2>>, <<s1,o1>> >> ELSE << <<s1,o1>>, <<s2,o2>> >>
           evR == IF rightCo THEN <<>> ELSE IF ~EvBefore(E, o1, o2) THEN << <<o2,s2>>, <<o1,s1>> >> ELSE << <<o1,s1>>, <<o2,s2>> >>
           evs == evL \o evR
       IN IF leftCo THEN
             LET E1 == [E EXCEPT ![s2].et = "NC", ![s1].et = IF E[s1].io = E[s2].io THEN "ST" ELSE "DT"]
                 D == IF ~rightCo THEN Divide(E1, Q, evs[2][2], E1[evs[1][1]].p) ELSE [ev |-> E1, q |-> Q]
             IN R(D.ev, D.q, 2, IF rightCo THEN "ov-identical" ELSE "ov-left")
          ELSE IF rightCo THEN
             LET D == Divide(E, Q, evs[1][1], E[evs[2][1]].p) IN R(D.ev, D.q, 3, "ov-right")
          ELSE IF evs[1][1] # evs[4][2] THEN
             LET D1 == Divide(E, Q, evs[1][1], E[evs[2][1]].p)
                 D2 == Divide(D1.ev, D1.q, evs[2][1], E[evs[3][1]].p)
             IN R(D2.ev, D2.q, 3, "ov-partial")
          ELSE
             LET D1 == Divide(E, Q, evs[1][1], E[evs[2][1]].p)
                 D2 == Divide(D1.ev, D1.q, D1.ev[evs[4][1]].other, E[evs[3][1]].p)
             IN R(D2.ev, D2.q, 3, "ov-inside")

\* --------------------------------------------------------- compute_fields
InRes(e, op) == CASE e.et = "N" -> (CASE op = "int" -> ~e.oio [] op = "union" -> e.oio
                                       [] op = "diff" -> (e.subj /\ e.oio) \/ (~e.subj /\ ~e.oio) [] op = "xor" -> TRUE)
                  [] e.et = "ST" -> op \in {"int", "union"}
                  [] e.et = "DT" -> op = "diff"
                  [] e.et = "NC" -> FALSE
Trans(e, op) == LET thisIn == ~e.io
                    thatIn == IF e.et \in {"ST", "DT"} THEN e.oio ELSE ~e.oio
                    isIn == CASE op = "int" -> thisIn /\ thatIn [] op = "union" -> thisIn \/ thatIn
                              [] op = "xor" -> thisIn # thatIn
                              [] op = "diff" -> IF e.subj THEN thisIn /\ ~thatIn ELSE thatIn /\ ~thisIn
                IN IF isIn THEN 2 ELSE 1     \* 2 = OutIn, 1 = InOut
Fields(E, a, prev, op) ==
  LET E1 == IF prev = 0 THEN [E EXCEPT ![a].io = FALSE, ![a].oio = TRUE, ![a].pir = 0]
            ELSE LET pr == E[prev] pv == IsVertical(E, prev)
                     io == IF E[a].subj = pr.subj THEN (IF pv THEN pr.io ELSE ~pr.io) ELSE ~pr.oio
                     oio == IF E[a].subj = pr.subj THEN pr.oio ELSE IF pv THEN ~pr.io ELSE pr.io
                     pir == IF pr.rt # 0 /\ ~pv THEN prev ELSE pr.pir
                 IN [E EXCEPT ![a].io = io, ![a].oio = oio, ![a].pir = pir]
      rt == IF InRes(E1[a], op) THEN Trans(E1[a], op) ELSE 0
  IN [E1 EXCEPT ![a].rt = rt]

\* ------------------------------------------------------------ status line
Pos(E, SL, a) == Cardinality({i \in 1..Len(SL) : SegCmp(E, SL[i], a) = "L"})
IndexOf(SL, a) == CHOOSE i \in 1..Len(SL) : SL[i] = a

\* ------------------------------------------------------------- fill_queue
RECURSIVE AddRing(_, _, _, _, _, _)
AddRing(E, ring, k, subj, cid, ext) ==
  IF k >= Len(ring) THEN E
  ELSE IF XY(ring[k]) = XY(ring[k+1]) THEN AddRing(E, ring, k+1, subj, cid, ext)      \* skip collapsed edges
  ELSE LET n == Len(E)
           e1 == Ev(XY(ring[k]), FALSE, n+2, subj, cid, ext)
           e2 == Ev(XY(ring[k+1]), FALSE, n+1, subj, cid, ext)
           E1 == E \o <<e1, e2>>
           E2 == IF ~EvBefore(E1, n+1, n+2) THEN [E1 EXCEPT ![n+2].left = TRUE] ELSE [E1 EXCEPT ![n+1].left = TRUE]
       IN AddRing(E2, ring, k+1, subj, cid, ext)
RECURSIVE AddPoly(_, _, _, _, _, _)
AddPoly(E, poly, j, subj, cid, extFirst) ==
  IF j > Len(poly) THEN E
  ELSE AddPoly(AddRing(E, poly[j], 1, subj, cid, IF j = 1 THEN extFirst ELSE FALSE), poly, j+1, subj, cid, extFirst)
RECURSIVE AddSubject(_, _, _), AddClipping(_, _, _, _, _)
AddSubject(E, mp, i) == IF i > Len(mp) THEN E ELSE AddSubject(AddPoly(E, mp[i], 1, TRUE, i, TRUE), mp, i+1)
AddClipping(E, mp, i, cid, isDiff) ==
  IF i > Len(mp) THEN E
  ELSE LET c == IF isDiff THEN cid ELSE cid + 1
       IN AddClipping(AddPoly(E, mp[i], 1, FALSE, c, ~isDiff), mp, i+1, c, isDiff)
FillQueue(subject, clipping, op) == AddClipping(AddSubject(<<>>, subject, 1), clipping, 1, Len(subject), op = "diff")

\* bounding box as the code computes it (from the start points of the non-collapsed edges)
BoxOf(mp) == LET X == EdgeRecs(mp) IN IF X = {} THEN <<>> ELSE BBox(UNION {{x.e[1], x.e[2]} : x \in X})
ShortcutTaken(sb, cb) == sb = <<>> \/ cb = <<>> \/ BoxesDisjoint(sb, cb)

\* ---------------------------------------------------------- connect_edges
\* order_events: the result events in sweep order (the bubble sort terminates iff the order is strict)
ResultEvents(E, sorted) ==
  LET sel == SelectSeq(sorted, LAMBDA i : (E[i].left /\ E[i].rt # 0) \/ (~E[i].left /\ E[E[i].other].rt # 0))
  IN SortSeq(sel, LAMBDA i, j : EvBefore(E, i, j))
\* precompute_iteration_order on the ordered result events
IterMap(E, res) ==
  LET n == Len(res)
      same(i, j) == E[res[i]].p = E[res[j]].p
      grpLo(i) == CHOOSE a \in 1..i : same(a, i) /\ (\A b \in a..i : same(b, i)) /\ (a = 1 \/ ~same(a-1, i))
      grpHi(i) == CHOOSE a \in i..n : same(a, i) /\ (\A b \in i..a : same(b, i)) /\ (a = n \/ ~same(a+1, i))
  IN [i \in 1..n |->
        LET lo == grpLo(i) hi == grpHi(i)
            Rs == {k \in lo..hi : ~E[res[k]].left}  Ls == {k \in lo..hi : E[res[k]].left}
            rFrom == lo  rUpto == lo + Cardinality(Rs) - 1
            lFrom == rUpto + 1  lUpto == hi
        IN IF i \in Rs THEN (IF i < rUpto THEN i + 1 ELSE IF Ls # {} THEN lUpto ELSE rFrom)
           ELSE (IF i > lFrom THEN i - 1 ELSE IF Rs # {} THEN rFrom ELSE lUpto)]
\* get_next_pos
RECURSIVE NextPos(_, _, _, _)
NextPos(pos, start, processed, map) ==
  LET nx == map[pos] IN
  IF nx = start THEN 0 ELSE IF nx \notin processed THEN nx ELSE NextPos(nx, start, processed, map)

\* contours: [points, holeIds, holeOf (-1 = none), depth]
NewContour(holeOf, depth) == [points |-> <<>>, holeIds |-> <<>>, holeOf |-> holeOf, depth |-> depth]
\* Contour::initialize_from_context; returns <<contours', new contour, branch>>
InitContext(E, ev, contours, cidNew) ==
  IF E[ev].pir = 0 THEN <<contours, NewContour(-1, 0), "no-lower">>
  ELSE LET pr == E[E[ev].pir]  lower == pr.ocid IN
       IF pr.rt = 2 THEN      \* OutIn: we are inside the lower contour
          IF lower < 0 \/ lower >= Len(contours) THEN <<contours, NewContour(-1, 0), "PANIC-lower-id">>
          ELSE LET lc == contours[lower + 1] IN
               IF lc.holeOf # -1 THEN
                  <<[contours EXCEPT ![lc.holeOf + 1].holeIds = Append(@, cidNew)], NewContour(lc.holeOf, lc.depth), "sibling-hole">>
               ELSE <<[contours EXCEPT ![lower + 1].holeIds = Append(@, cidNew)], NewContour(lower, lc.depth + 1), "hole-of-lower">>
       ELSE <<contours, NewContour(-1, IF lower < 0 \/ lower >= Len(contours) THEN 0 ELSE contours[lower + 1].depth), "exterior-above">>

\* walk one contour starting at result position i; returns [E, processed, points]
RECURSIVE Walk(_, _, _, _, _, _, _, _)
Walk(E, res, map, processed, pos, initial, cid, pts) ==
  LET E1 == [E EXCEPT ![res[pos]].ocid = cid]
      p2 == E1[res[pos]].opos
      E2 == [E1 EXCEPT ![res[p2]].ocid = cid]
      proc2 == processed \cup {pos, p2}
      pts2 == Append(pts, E2[res[p2]].p)
      nx == NextPos(p2, p2, proc2, map)
  IN IF nx = 0 THEN [ev |-> E2, processed |-> proc2, points |-> pts2]
     ELSE IF E2[res[nx]].p = initial THEN [ev |-> E2, processed |-> proc2, points |-> pts2]
     ELSE Walk(E2, res, map, proc2, nx, initial, cid, pts2)

\* ---------------------------------------------------------------- the machine
VARIABLES A, B, op, E, Q, SL, sorted, pc, lab, res, contours, processed, out
svars == <<A, B, op, E, Q, SL, sorted, pc, lab, res, contours, processed, out>>

SInit(a, b, o) ==
  /\ A = a /\ B = b /\ op = o
  /\ LET E0 == FillQueue(a, b, o) IN E = E0 /\ Q = 1..Len(E0)
  /\ SL = <<>> /\ sorted = <<>> /\ res = <<>> /\ contours = <<>> /\ processed = {} /\ out = <<>>
  /\ lab = <<"fill">>
  /\ pc = IF UseShortcuts /\ ShortcutTaken(BoxOf(a), BoxOf(b)) THEN "trivial" ELSE "sweep"

Trivial == /\ pc = "trivial" /\ pc' = "done" /\ lab' = <<"trivial">>
           /\ out' = (CASE op = "int" -> <<>> [] op = "diff" -> A [] OTHER -> A \o B)
           /\ UNCHANGED <<A, B, op, E, Q, SL, sorted, res, contours, processed>>

Pop ==
  /\ pc = "sweep" /\ Q # {}
  /\ LET e == CHOOSE x \in Q : \A y \in Q \ {x} : EvBefore(E, x, y)
         Q1 == Q \ {e}
         sb == BoxOf(A)  cb == BoxOf(B)
         sbx == IF sb = <<>> THEN -1000000000 ELSE sb[3]
         cbx == IF cb = <<>> THEN -1000000000 ELSE cb[3]
     IN /\ sorted' = Append(sorted, e)
        /\ IF UseShortcuts /\ ((op = "int" /\ E[e].p[1] > Mn(sbx, cbx)) \/ (op = "diff" /\ E[e].p[1] > sbx))
           THEN pc' = "order" /\ lab' = <<"break">> /\ UNCHANGED <<E, SL>> /\ Q' = Q1
           ELSE IF E[e].left THEN
             LET k == Pos(E, SL, e)
                 prev == IF k >= 1 THEN SL[k] ELSE 0
                 next == IF k < Len(SL) THEN SL[k+1] ELSE 0
                 SL1 == SubSeq(SL, 1, k) \o <<e>> \o SubSeq(SL, k+1, Len(SL))
                 E1 == Fields(E, e, prev, op)
                 R1 == IF next # 0 THEN PI(E1, Q1, e, next) ELSE [ev |-> E1, q |-> Q1, code |-> 0, br |-> "-"]
                 E2 == IF R1.code = 2 THEN Fields(Fields(R1.ev, e, prev, op), next, e, op) ELSE R1.ev
                 R2 == IF prev # 0 THEN PI(E2, R1.q, prev, e) ELSE [ev |-> E2, q |-> R1.q, code |-> 0, br |-> "-"]
                 pp == IF k >= 2 THEN SL[k-1] ELSE 0
                 E3 == IF R2.code = 2 THEN Fields(Fields(R2.ev, prev, pp, op), e, prev, op) ELSE R2.ev
             IN /\ E' = E3 /\ Q' = R2.q /\ SL' = SL1 /\ pc' = pc
                /\ lab' = <<"L", IF prev = 0 THEN "noprev" ELSE IF E[prev].subj = E[e].subj THEN (IF IsVertical(E, prev) THEN "same-vert" ELSE "same") ELSE (IF IsVertical(E, prev) THEN "other-vert" ELSE "other"),
                            R1.br, R1.code, R2.br, R2.code>>
           ELSE
             LET o == E[e].other IN
             IF \E i \in 1..Len(SL) : SL[i] = o THEN
               LET i == IndexOf(SL, o)
                   prev == IF i > 1 THEN SL[i-1] ELSE 0
                   next == IF i < Len(SL) THEN SL[i+1] ELSE 0
                   R == IF prev # 0 /\ next # 0 THEN PI(E, Q1, prev, next) ELSE [ev |-> E, q |-> Q1, code |-> 0, br |-> "-"]
               IN /\ E' = R.ev /\ Q' = R.q /\ SL' = SubSeq(SL, 1, i-1) \o SubSeq(SL, i+1, Len(SL)) /\ pc' = pc
                  /\ lab' = <<"R", R.br, R.code>>
             ELSE /\ UNCHANGED <<E, SL>> /\ Q' = Q1 /\ pc' = pc /\ lab' = <<"R", "PANIC-missing", 0>>
  /\ UNCHANGED <<A, B, op, res, contours, processed, out>>

EndSweep == /\ pc = "sweep" /\ Q = {} /\ pc' = "order" /\ lab' = <<"end">>
            /\ UNCHANGED <<A, B, op, E, Q, SL, sorted, res, contours, processed, out>>

Order ==
  /\ pc = "order"
  /\ LET r == ResultEvents(E, sorted)
         posOf(i) == CHOOSE k \in 1..Len(r) : r[k] = i
     IN /\ res' = r
        /\ E' = [i \in 1..Len(E) |-> IF \E k \in 1..Len(r) : r[k] = i THEN [E[i] EXCEPT !.opos = posOf(E[i].other)] ELSE E[i]]
  /\ pc' = "connect" /\ lab' = <<"order">>
  /\ UNCHANGED <<A, B, op, Q, SL, sorted, contours, processed, out>>

Contour ==
  /\ pc = "connect"
  /\ \E i \in 1..Len(res) :
        /\ i \notin processed /\ \A j \in 1..(i-1) : j \in processed
        /\ LET cid == Len(contours)
               ic == InitContext(E, res[i], contours, cid)
               w == Walk(E, res, IterMap(E, res), processed, i, E[res[i]].p, cid, <<E[res[i]].p>>)
           IN /\ contours' = Append(ic[1], [ic[2] EXCEPT !.points = w.points])
              /\ E' = w.ev /\ processed' = w.processed
              /\ lab' = <<"contour", ic[3]>>
  /\ UNCHANGED <<A, B, op, Q, SL, sorted, pc, res, out>>

Assemble ==
  /\ pc = "connect" /\ \A i \in 1..Len(res) : i \in processed
  /\ LET ext == SelectSeq([k \in 1..Len(contours) |-> k], LAMBDA k : contours[k].holeOf = -1)
     IN out' = [m \in 1..Len(ext) |->
                  <<contours[ext[m]].points>> \o [h \in 1..Len(contours[ext[m]].holeIds) |-> contours[contours[ext[m]].holeIds[h] + 1].points]]
  /\ pc' = "done" /\ lab' = <<"assemble">>
  /\ UNCHANGED <<A, B, op, E, Q, SL, sorted, res, contours, processed>>

SNext == Trivial \/ Pop \/ EndSweep \/ Order \/ Contour \/ Assemble
=============================================================================
