------------------------------- MODULE Oracle -------------------------------
(***************************************************************************)
(* Layer P, pure operators: the region oracle.                             *)
(*                                                                         *)
(* A multipolygon is a sequence of polygons, a polygon a sequence of rings *)
(* (first = exterior), a ring a sequence of points.  The oracle never      *)
(* constructs faces: it works on the ATOMS of the arrangement of a set of  *)
(* segments (the segments split at every vertex / meeting point lying on   *)
(* them) and on the two SIDES of every atom.  Every face of the            *)
(* arrangement has an atom side on its boundary, so a statement that holds *)
(* on both sides of every atom holds on every face.  Membership of a side  *)
(* in a set of rings is exact ray-casting parity in integers.              *)
(***************************************************************************)
EXTENDS Geometry

\* ---- edges of rings / polygons / multipolygons as identified records (a bag) ----
RingRecs(ring, i, j) ==
  { [e |-> Norm(<<ring[k], ring[k+1]>>), id |-> <<i, j, k>>] :
      k \in {k \in 1..(Len(ring)-1) : XY(ring[k]) # XY(ring[k+1])} }
PolyRecs(poly, i) == UNION { RingRecs(poly[j], i, j) : j \in 1..Len(poly) }
EdgeRecs(mp) == UNION { PolyRecs(mp[i], i) : i \in 1..Len(mp) }
Segs(X) == { x.e : x \in X }
VertsOf(mp) == UNION { UNION { { XY(mp[i][j][k]) : k \in 1..Len(mp[i][j]) } : j \in 1..Len(mp[i]) } : i \in 1..Len(mp) }

\* ---- arrangement of a set E of normalised segments ----
ArrVerts(E) ==
  UNION {{e[1], e[2]} : e \in E}
  \cup UNION { XPts(p[1], p[2]) : p \in {q \in E \X E : Lex(q[1][1], q[2][1])
                                                     /\ ~BoxesDisjoint(<<Mn(q[1][1][1],q[1][2][1]), Mn(q[1][1][2],q[1][2][2]), Mx(q[1][1][1],q[1][2][1]), Mx(q[1][1][2],q[1][2][2])>>,
                                                                       <<Mn(q[2][1][1],q[2][2][1]), Mn(q[2][1][2],q[2][2][2]), Mx(q[2][1][1],q[2][2][1]), Mx(q[2][1][2],q[2][2][2])>>)} }
ChainOf(e, V) == LET s == SetToSortSeq({p \in V : OnSeg(p, e)}, Lex)
                 IN { <<s[i], s[i+1]>> : i \in 1..(Len(s)-1) }
AtomsOf(E, V) == UNION { ChainOf(e, V) : e \in E }

\* ---- parity of a bag X of edge records at the two sides of atom s ----
\* doubled midpoint strictly above the non-vertical normalised edge e, half-open x-range
BelowNV(e, m2) == /\ 2*e[1][1] <= m2[1] /\ m2[1] < 2*e[2][1]
                  /\ (e[2][1]-e[1][1])*(m2[2]-2*e[1][2]) - (e[2][2]-e[1][2])*(m2[1]-2*e[1][1]) > 0
Covers(e, s) == OnSeg(s[1], e) /\ OnSeg(s[2], e)
\* <<inside just below s, inside just above s>>; for a vertical atom: <<left, right>>
Par(X, s) ==
  LET vert == s[1][1] = s[2][1]
      m2 == IF vert THEN Tr(<<s[1][1]+s[2][1], s[1][2]+s[2][2]>>) ELSE <<s[1][1]+s[2][1], s[1][2]+s[2][2]>>
      b == Cardinality({x \in X : LET f == IF vert THEN TrE(x.e) ELSE x.e IN f[1][1] # f[2][1] /\ BelowNV(f, m2)}) % 2 = 1
      c == Cardinality({x \in X : Covers(x.e, s)}) % 2 = 1
  IN <<b, b # c>>

\* ---- Boolean expressions over named operands ----
\* expr: <<"b", name>> | <<"o", op, expr, expr>>
InOp(op, a, b) == CASE op = "int" -> a /\ b [] op = "union" -> a \/ b
                    [] op = "diff" -> a /\ ~b [] op = "xor" -> a # b
RECURSIVE EvalExpr(_, _)
EvalExpr(x, mem) == IF x[1] = "b" THEN mem[x[2]]
                    ELSE InOp(x[2], EvalExpr(x[3], mem), EvalExpr(x[4], mem))
RECURSIVE BaseNames(_)
BaseNames(x) == IF x[1] = "b" THEN {x[2]} ELSE BaseNames(x[3]) \cup BaseNames(x[4])

\* membership of the two sides of s in expr, operands read by the even-odd rule
ExprPar(x, recs, s) ==
  LET pp == [n \in BaseNames(x) |-> Par(recs[n], s)]
  IN <<EvalExpr(x, [n \in BaseNames(x) |-> pp[n][1]]), EvalExpr(x, [n \in BaseNames(x) |-> pp[n][2]])>>

\* ---- the two readings of a result multipolygon at the sides of s ----
PolyPar(poly, i, s) ==   \* inside polygon i = inside exterior and outside all holes
  LET ex == Par(RingRecs(poly[1], i, 1), s)
      hs == [j \in 2..Len(poly) |-> Par(RingRecs(poly[j], i, j), s)]
  IN <<ex[1] /\ \A j \in 2..Len(poly) : ~hs[j][1], ex[2] /\ \A j \in 2..Len(poly) : ~hs[j][2]>>
PolyCount(mp, s) ==      \* number of polygons containing each side
  LET pp == [i \in 1..Len(mp) |-> PolyPar(mp[i], i, s)]
  IN <<Cardinality({i \in 1..Len(mp) : pp[i][1]}), Cardinality({i \in 1..Len(mp) : pp[i][2]})>>

\* doubled area of a multipolygon in the polygon reading (|exterior| - sum |holes|)
RECURSIVE SumSeq(_, _)
SumSeq(f, i) == IF i > Len(f) THEN 0 ELSE f[i] + SumSeq(f, i+1)
PolyArea2(poly) == IF Len(poly) = 0 THEN 0
                   ELSE Abs(Area2(poly[1])) - SumSeq([j \in 1..(Len(poly)-1) |-> Abs(Area2(poly[j+1]))], 1)
MpArea2(mp) == SumSeq([i \in 1..Len(mp) |-> PolyArea2(mp[i])], 1)

\* every pairwise meeting point of the segments is integral (the arrangement is decidable here)
AllIntegral(E) == \A e \in E : \A f \in E : IntegralMeet(e, f)

\* ---- contracts on a result multipolygon, shared by Layer P (BoolOps) and the Layer M checks ----
\* the result, read polygon by polygon, is expression `ex` over the operands `recs` on both sides
\* of every atom of the operands' arrangement
\* (extra = further segments to refine the arrangement with: the result's own edges when they
\*  are not known to lie on input edges)
RegionMatches(mp, ex, recs, extra) ==
  LET bs == BaseNames(ex)
      E == UNION {Segs(recs[n]) : n \in bs} \cup extra
      V == ArrVerts(E)
  IN \A s \in AtomsOf(E, V) :
        LET want == ExprPar(ex, recs, s)  got == PolyCount(mp, s)
        IN (got[1] >= 1) = want[1] /\ (got[2] >= 1) = want[2]

\* the rings are grouped into a valid polygon set; Ein = the input segments
PolygonSetValid(mp, Ein) ==
  LET ER == EdgeRecs(mp)
      E == Ein \cup Segs(ER)
      V == ArrVerts(E)
      RA == UNION { { [a |-> at, id |-> x.id] : at \in ChainOf(x.e, V) } : x \in ER }
  IN /\ Cardinality(RA) = Cardinality({y.a : y \in RA})        \* (a) nothing shared or traversed twice
     /\ \A s \in AtomsOf(E, V) :                                \* (c),(d) disjoint parts; both readings agree
           LET got == PolyCount(mp, s)  eo == Par(ER, s)
           IN got[1] <= 1 /\ got[2] <= 1 /\ eo[1] = (got[1] = 1) /\ eo[2] = (got[2] = 1)
     /\ \A i \in 1..Len(mp) : \A j \in 2..Len(mp[i]) :          \* (b) holes inside their exterior, outside the other holes
           \A x \in RingRecs(mp[i][j], i, j) : \A s \in ChainOf(x.e, V) :
              /\ Par(RingRecs(mp[i][1], i, 1), s) = <<TRUE, TRUE>>
              /\ \A j2 \in (2..Len(mp[i])) \ {j} : Par(RingRecs(mp[i][j2], i, j2), s) = <<FALSE, FALSE>>

\* ---- ring normalisation for ring-set comparisons ----
Open(r) == IF Len(r) >= 2 /\ XY(r[1]) = XY(r[Len(r)]) THEN SubSeq(r, 1, Len(r)-1) ELSE r
RECURSIVE DedupAcc(_, _, _)
DedupAcc(r, i, acc) == IF i > Len(r) THEN acc
                       ELSE DedupAcc(r, i+1, IF acc # <<>> /\ XY(acc[Len(acc)]) = XY(r[i]) THEN acc ELSE Append(acc, XY(r[i])))
Dedup(r) == LET d == DedupAcc(r, 1, <<>>) IN Open(d)
RotTo(r, k) == SubSeq(r, k, Len(r)) \o SubSeq(r, 1, k-1)
RevSeq(r) == [i \in 1..Len(r) |-> r[Len(r)+1-i]]
\* canonical form up to start and repeated vertices (direction kept)
SeqLexLe(c, d) == c = d \/ \E i \in 1..Len(c) : (\A h \in 1..(i-1) : c[h] = d[h]) /\ Lex(c[i], d[i])
CanonRot(r) == LET d == Dedup(r) IN
               IF d = <<>> THEN d
               ELSE LET ks == {k \in 1..Len(d) : \A m \in 1..Len(d) : LexLe(d[k], d[m])}
                        cands == {RotTo(d, k) : k \in ks}
                    IN CHOOSE c \in cands : \A c2 \in cands : SeqLexLe(c, c2)
\* canonical form up to start, direction and repeated vertices (no arithmetic: the smaller of
\* the two directions' canonical rotations, so it also works on coordinates up to 2^30)
CanonRing(r) == LET d == Dedup(r)  a == CanonRot(d)  b == CanonRot(RevSeq(d))
                IN IF SeqLexLe(a, b) THEN a ELSE b
CanonPoly(poly, dirFree) ==
  LET c(r) == IF dirFree THEN CanonRing(r) ELSE CanonRot(r)
  IN <<c(poly[1]), { c(poly[j]) : j \in 2..Len(poly) }>>
\* polygons as a bag: set of <<canon, multiplicity>>
CanonMp(mp, dirFree) ==
  LET cs == [i \in 1..Len(mp) |-> CanonPoly(mp[i], dirFree)]
  IN { <<cs[i], Cardinality({m \in 1..Len(mp) : cs[m] = cs[i]})>> : i \in 1..Len(mp) }
=============================================================================
