------------------------------ MODULE MC_Splay ------------------------------
(***************************************************************************)
(* Exhaustive model of the splay tree over a small key universe: every     *)
(* tree shape reachable from the empty tree by any sequence of public      *)
(* operations, and every operation from it.  Checked at every transition:  *)
(* refinement of SortedMap (return value and abstract effect), BST order,  *)
(* size, bounded stack.  With GRAPH = TRUE each state prints one line      *)
(* "G <json>" listing all its out-transitions with the expected return     *)
(* value and successor shape; the harness replays EVERY transition of that *)
(* graph through the real SplayTree / SplaySet (bin/check C17).            *)
(***************************************************************************)
EXTENDS SplayTree, Json

CONSTANTS N, Vals, GRAPH

KeysU == 1..N
Probe == 0..(N+1)                       \* lookup keys incl. absent ones below / above everything
AllOps == {[op |-> "insert", k |-> k, v |-> v] : k \in KeysU, v \in Vals}
          \cup {[op |-> x, k |-> k, v |-> 0] : x \in {"remove", "get", "find", "contains", "next", "prev"}, k \in Probe}
          \cup {[op |-> x, k |-> 0, v |-> 0] : x \in {"min", "max", "len", "clear", "is_empty"}}
          \cup {[op |-> "get_mut", k |-> k, v |-> v] : k \in Probe, v \in Vals}
          \cup {[op |-> "index_mut", k |-> k, v |-> v] : k \in KeysU, v \in Vals}

VARIABLES mode, t, ok, depth
mvars == <<mode, t, ok, depth>>

Init == mode = "tree" /\ t = Nil /\ ok = TRUE /\ depth = 0

Refines(tr, o, d) == /\ d.ret = Ret(Content(tr), o)
                     /\ Content(d.t) = Eff(Content(tr), o)
                     /\ IsBST(d.t, -1, N+2)
                     /\ Size(d.t) = Cardinality(DOMAIN Eff(Content(tr), o))

Op(o) == /\ mode = "tree"
         /\ LET d == Do(t, o) IN t' = d.t /\ ok' = Refines(t, o, d) /\ depth' = d.depth
         /\ mode' = mode

IntoIter == mode = "tree" /\ mode' = "iter" /\ UNCHANGED <<t, ok, depth>>

IterStep(back) ==
  /\ mode = "iter" /\ mode' = mode /\ depth' = 0
  /\ IF t = Nil THEN UNCHANGED <<t, ok>>
     ELSE LET x == IF back THEN IterNextBack(t) ELSE IterNext(t) IN
          /\ t' = x[3]
          /\ ok' = /\ x[1] = IterRet(Keys(t), back)
                   /\ x[2] = Content(t)[x[1]]
                   /\ Keys(x[3]) = IterEff(Keys(t), back)
                   /\ IsBST(x[3], -1, N+2)

DropIter == mode = "iter" /\ mode' = "tree" /\ t' = Nil /\ ok' = TRUE /\ depth' = TeardownDepth(t)

Next == (\E o \in AllOps : Op(o)) \/ IntoIter \/ IterStep(FALSE) \/ IterStep(TRUE) \/ DropIter
Spec == Init /\ [][Next]_mvars

C17_RefinesSortedMap == ok
C17_BST == IsBST(t, -1, N+2)
C18_StackBounded == depth <= 2

\* ---- graph dump for the transition replay ----
TreeTrans == { [o |-> o, ret |-> Do(t, o).ret, rv |-> RetVal(Content(t), o), t |-> Do(t, o).t, len |-> Size(Do(t, o).t)] : o \in AllOps }
IterTrans == IF t = Nil THEN { [back |-> b, k |-> None, v |-> None, t |-> Nil, rem |-> 0] : b \in BOOLEAN }
             ELSE { LET x == IF b THEN IterNextBack(t) ELSE IterNext(t)
                    IN [back |-> b, k |-> x[1], v |-> x[2], t |-> x[3], rem |-> Size(x[3])] : b \in BOOLEAN }
GraphLine == GRAPH => PrintT(<<"G", ToJson([mode |-> mode, t |-> t,
                                             trans |-> IF mode = "tree" THEN TreeTrans ELSE {},
                                             itrans |-> IF mode = "iter" THEN IterTrans ELSE {}])>>)
=============================================================================
