----------------------------- MODULE SplayTree -----------------------------
(***************************************************************************)
(* Layer M: the splay tree of lib/src/splay/tree.rs, transcribed.          *)
(* A tree is Nil (<<>>) or <<key, value, left, right>>: exactly the shape  *)
(* the Debug rendering of the real tree exposes.  `Splay` is the top-down  *)
(* splay with the two assembly trees; insert / remove / get / next / prev  *)
(* / min / max / clear and the rotation-based consuming iterator follow    *)
(* the code statement by statement.  `Do` returns the new tree, the        *)
(* return value and the call-stack depth the operation needs (C18).        *)
(***************************************************************************)
EXTENDS SortedMap

CONSTANT RecursiveTeardown    \* TRUE models the pinned (pre-fix) clear/drop: drop glue recursing over the boxes

Nil == <<>>
K(t) == t[1]
V(t) == t[2]
Lf(t) == t[3]
Rt(t) == t[4]
Mk(k, v, l, r) == <<k, v, l, r>>
SetL(t, l) == <<t[1], t[2], l, t[4]>>
SetR(t, r) == <<t[1], t[2], t[3], r>>

\* the assembly chains: nodes collected while descending, re-linked at the end
RECURSIVE ChainR(_, _), ChainL(_, _)
ChainR(LT, tail) == IF LT = <<>> THEN tail ELSE SetR(Head(LT), ChainR(Tail(LT), tail))
ChainL(RT, tail) == IF RT = <<>> THEN tail ELSE SetL(Head(RT), ChainL(Tail(RT), tail))

\* fn splay: the loop. LT = nodes hung into the left assembly tree (via .right),
\* RT = nodes hung into the right assembly tree (via .left)
RECURSIVE SplayLoop(_, _, _, _)
SplayLoop(key, node, LT, RT) ==
  IF key = K(node) THEN <<node, LT, RT>>
  ELSE IF key < K(node) THEN
     IF Lf(node) = Nil THEN <<node, LT, RT>>
     ELSE LET left == Lf(node) IN
          IF key < K(left) THEN          \* rotate right
             LET rot == Mk(K(left), V(left), Nil, SetL(node, Rt(left))) IN
             IF Lf(left) = Nil THEN <<rot, LT, RT>>
             ELSE SplayLoop(key, Lf(left), LT, Append(RT, rot))
          ELSE SplayLoop(key, left, LT, Append(RT, SetL(node, Nil)))
  ELSE
     IF Rt(node) = Nil THEN <<node, LT, RT>>
     ELSE LET right == Rt(node) IN
          IF key > K(right) THEN         \* rotate left
             LET rot == Mk(K(right), V(right), SetR(node, Lf(right)), Nil) IN
             IF Rt(right) = Nil THEN <<rot, LT, RT>>
             ELSE SplayLoop(key, Rt(right), Append(LT, rot), RT)
          ELSE SplayLoop(key, right, Append(LT, SetR(node, Nil)), RT)
Splay(key, t) == LET x == SplayLoop(key, t, <<>>, <<>>)  n == x[1]
                 IN Mk(K(n), V(n), ChainR(x[2], Lf(n)), ChainL(x[3], Rt(n)))

RECURSIVE Keys(_), Size(_), MinK(_), MaxK(_), Height(_), Pairs(_)
Keys(t) == IF t = Nil THEN {} ELSE Keys(Lf(t)) \cup {K(t)} \cup Keys(Rt(t))
Size(t) == IF t = Nil THEN 0 ELSE 1 + Size(Lf(t)) + Size(Rt(t))
MinK(t) == IF Lf(t) = Nil THEN K(t) ELSE MinK(Lf(t))
MaxK(t) == IF Rt(t) = Nil THEN K(t) ELSE MaxK(Rt(t))
Height(t) == IF t = Nil THEN 0 ELSE 1 + (IF Height(Lf(t)) > Height(Rt(t)) THEN Height(Lf(t)) ELSE Height(Rt(t)))
\* refinement mapping to SortedMap: the set of <<key, value>> pairs as a function
Pairs(t) == IF t = Nil THEN {} ELSE Pairs(Lf(t)) \cup {<<K(t), V(t)>>} \cup Pairs(Rt(t))
Content(t) == [k \in Keys(t) |-> (CHOOSE p \in Pairs(t) : p[1] = k)[2]]
RECURSIVE IsBST(_, _, _)
IsBST(t, lo, hi) == t = Nil \/ (lo < K(t) /\ K(t) < hi /\ IsBST(Lf(t), lo, K(t)) /\ IsBST(Rt(t), K(t), hi))

\* descend after the splay (fn next / fn prev)
RECURSIVE Succ(_, _, _), Pred(_, _, _)
Succ(key, node, best) == IF key < K(node) THEN (IF Lf(node) = Nil THEN K(node) ELSE Succ(key, Lf(node), K(node)))
                         ELSE (IF Rt(node) = Nil THEN best ELSE Succ(key, Rt(node), best))
Pred(key, node, best) == IF key > K(node) THEN (IF Rt(node) = Nil THEN K(node) ELSE Pred(key, Rt(node), K(node)))
                         ELSE (IF Lf(node) = Nil THEN best ELSE Pred(key, Lf(node), best))

\* teardown: number of stack frames needed to free the tree
TeardownDepth(t) == IF RecursiveTeardown THEN Height(t) ELSE 1

\* one public call: [t |-> new tree, ret |-> return value, depth |-> stack frames below the call]
Do(t, o) ==
  LET k == o.k
      R(t2, r, d) == [t |-> t2, ret |-> r, depth |-> d]
  IN
  CASE o.op = "insert" ->
         IF t = Nil THEN R(Mk(k, o.v, Nil, Nil), None, 0)
         ELSE LET s == Splay(k, t) IN
              IF k = K(s) THEN R(Mk(K(s), o.v, Lf(s), Rt(s)), V(s), 1)
              ELSE IF k < K(s) THEN R(Mk(k, o.v, Lf(s), SetL(s, Nil)), None, 1)
              ELSE R(Mk(k, o.v, SetR(s, Nil), Rt(s)), None, 1)
    [] o.op = "remove" ->
         IF t = Nil THEN R(Nil, None, 0)
         ELSE LET s == Splay(k, t) IN
              IF k # K(s) THEN R(s, None, 1)
              ELSE IF Lf(s) = Nil THEN R(Rt(s), V(s), 1)
              ELSE R(SetR(Splay(k, Lf(s)), Rt(s)), V(s), 1)
    [] o.op \in {"get", "find", "contains"} ->
         IF t = Nil THEN R(Nil, IF o.op = "contains" THEN 0 ELSE None, 0)
         ELSE LET s == Splay(k, t) hit == K(s) = k IN
              R(s, CASE o.op = "get" -> (IF hit THEN V(s) ELSE None)
                     [] o.op = "find" -> (IF hit THEN k ELSE None)
                     [] OTHER -> (IF hit THEN 1 ELSE 0), 1)
    [] o.op = "next" -> IF t = Nil THEN R(Nil, None, 0) ELSE LET s == Splay(k, t) IN R(s, Succ(k, s, None), 1)
    [] o.op = "prev" -> IF t = Nil THEN R(Nil, None, 0) ELSE LET s == Splay(k, t) IN R(s, Pred(k, s, None), 1)
    [] o.op = "min" -> R(t, IF t = Nil THEN None ELSE MinK(t), 0)
    [] o.op = "max" -> R(t, IF t = Nil THEN None ELSE MaxK(t), 0)
    [] o.op = "len" -> R(t, Size(t), 0)
    [] o.op = "is_empty" -> R(t, IF t = Nil THEN 1 ELSE 0, 0)
    [] o.op \in {"get_mut", "index_mut", "index"} ->          \* a lookup (splays) handing out the value slot
         IF t = Nil THEN R(Nil, None, 0)
         ELSE LET s == Splay(k, t) hit == K(s) = k IN
              IF ~hit THEN R(s, None, 1)
              ELSE IF o.op = "index" THEN R(s, V(s), 1)
              ELSE R(Mk(K(s), o.v, Lf(s), Rt(s)), V(s), 1)
    [] o.op = "clear" -> R(Nil, None, TeardownDepth(t))

\* the consuming iterator: `cur` is rotated until its root has no left (right) child
RECURSIVE IterNext(_), IterNextBack(_)
IterNext(cur) ==         \* <<key, value, cur'>>
  IF Lf(cur) = Nil THEN <<K(cur), V(cur), Rt(cur)>>
  ELSE LET n == Lf(cur) IN IterNext(Mk(K(n), V(n), Lf(n), SetL(cur, Rt(n))))
IterNextBack(cur) ==
  IF Rt(cur) = Nil THEN <<K(cur), V(cur), Lf(cur)>>
  ELSE LET n == Rt(cur) IN IterNextBack(Mk(K(n), V(n), SetR(cur, Lf(n)), Rt(n)))
=============================================================================
