------------------------------- MODULE Stages -------------------------------
(***************************************************************************)
(* Layer P: contracts of the PUBLIC STAGES of the sweep (C13..C16), as     *)
(* predicates on what the stages returned through the public API.          *)
(*                                                                         *)
(* An event is the tuple the recorder writes:                              *)
(*   <<id, x, y, dev, left, other, subject, contour, exterior, edgeType,   *)
(*     inOut, otherInOut, transition, prevInResult>>                       *)
(* (flags 0/1; edgeType 0 Normal 1 NonContributing 2 Same 3 Different;     *)
(*  transition 0 None 1 InOut 2 OutIn; ids index the run's event table).   *)
(***************************************************************************)
EXTENDS Oracle

DevTolS == 1000
ExactMaxS == 48
OctiS(mp) == \A x \in EdgeRecs(mp) :
               LET dx == x.e[2][1] - x.e[1][1]  dy == x.e[2][2] - x.e[1][2]
               IN /\ (dx = 0 \/ dy = 0 \/ Abs(dx) = Abs(dy))
                  /\ Abs(x.e[1][1]) <= ExactMaxS /\ Abs(x.e[1][2]) <= ExactMaxS
                  /\ Abs(x.e[2][1]) <= ExactMaxS /\ Abs(x.e[2][2]) <= ExactMaxS

EId(e) == e[1]
EPt(e) == <<e[2], e[3]>>
EDev(e) == e[4]
ELeft(e) == e[5] = 1
EOther(e) == e[6]
ESubj(e) == e[7] = 1
EType(e) == e[10]
EIo(e) == e[11] = 1
EOio(e) == e[12] = 1
ERt(e) == e[13]
EPir(e) == e[14]

\* bag of values of a finite indexed family, as a set of <<value, multiplicity>>
BagOf(idx, f(_)) == { <<f(i), Cardinality({j \in idx : f(j) = f(i)})>> : i \in idx }

\* ------------------------------------------------------------------ C13
\* T = event table (id -> event), ids = the events to consider
Linked(T, ids) == \A i \in ids :
                     LET e == T[i] o == EOther(e) IN
                     /\ o \in DOMAIN T /\ o # i
                     /\ EOther(T[o]) = i
                     /\ ELeft(e) # ELeft(T[o])
                     /\ ESubj(e) = ESubj(T[o])
LeftFirst(T, ids) == \A i \in ids : ELeft(T[i]) => Lex(EPt(T[i]), EPt(T[EOther(T[i])]))
SegOf(T, i) == Norm(<<EPt(T[i]), EPt(T[EOther(T[i])])>>)
LeftIds(T, ids) == {i \in ids : ELeft(T[i])}

\* processing order: non-decreasing by point (events created by a division at the current
\* point are processed after the event that caused it, so nothing more is demanded at a point)
SweepSorted(T, seq) == \A k \in 1..(Len(seq)-1) : LexLe(EPt(T[seq[k]]), EPt(T[seq[k+1]]))

\* queue filling: exactly one linked pair per non-degenerate input edge, exact boxes
FillQueueOK(fq, A, B) ==
  LET n == Len(fq.ev)
      T == [i \in {EId(fq.ev[k]) : k \in 1..n} |-> fq.ev[CHOOSE k \in 1..n : EId(fq.ev[k]) = i]]
      ids == DOMAIN T
      EA == EdgeRecs(A)  EB == EdgeRecs(B)
      L == LeftIds(T, ids)
      inBag == { <<p[1], p[2], Cardinality({x \in (IF p[2] THEN EA ELSE EB) : x.e = p[1]})>> :
                   p \in {<<x.e, TRUE>> : x \in EA} \cup {<<x.e, FALSE>> : x \in EB} }
      outBag == { <<SegOf(T, i), ESubj(T[i]), Cardinality({j \in L : SegOf(T, j) = SegOf(T, i) /\ ESubj(T[j]) = ESubj(T[i])})>> : i \in L }
  IN /\ Cardinality(ids) = n
     /\ Linked(T, ids) /\ LeftFirst(T, ids)
     /\ \A i \in ids : EDev(T[i]) = 0 /\ EPt(T[i]) # EPt(T[EOther(T[i])])
     /\ inBag = outBag
     /\ SweepSorted(T, [k \in 1..n |-> EId(fq.ev[k])])
     /\ LET ends(X) == UNION {{x.e[1], x.e[2]} : x \in X}
            box(bb, X) == IF X = {} THEN bb = <<>> ELSE bb # <<>> /\ <<bb[1], bb[2], bb[3], bb[4]>> = BBox(ends(X)) /\ bb[5] = 0
        IN box(fq.sbb, EA) /\ box(fq.cbb, EB)

\* x beyond which an early-terminating operation has not swept (infinite otherwise)
Inf == 1000000000
XLast(op, sub, T) == IF op \in {"int", "diff"} /\ Len(sub.rest) > 0 /\ Len(sub.sorted) > 0
                     THEN T[sub.sorted[Len(sub.sorted)]][2] ELSE Inf

\* the sub-segments form a proper planar subdivision of the inputs
SubdivisionOK(op, sub, A, B, exact) ==
  LET T == sub.ev                                     \* event id = index
      all == sub.sorted \o sub.rest
      ids == {all[k] : k \in 1..Len(all)}
      L == LeftIds(T, ids)
      xl == XLast(op, sub, T)
      EA == EdgeRecs(A)  EB == EdgeRecs(B)
      Vin == ArrVerts(Segs(EA) \cup Segs(EB))
      V == {EPt(T[i]) : i \in ids}
      atomsOfInputs(X) == { <<at, Cardinality({x \in X : at \in ChainOf(x.e, V)})>> : at \in UNION {ChainOf(x.e, V) : x \in X} }
      atomsOfSubs(s) == LET S == {i \in L : ESubj(T[i]) = s}
                        IN { <<at, Cardinality({i \in S : at \in ChainOf(SegOf(T, i), V)})>> : at \in UNION {ChainOf(SegOf(T, i), V) : i \in S} }
      meetOK(i, j) ==
         LET s == SegOf(T, i) t == SegOf(T, j)
             x == SegInter(s[1], s[2], t[1], t[2])
         IN CASE x.k = "none" -> TRUE
              [] x.k = "point" -> (x.p \in {s[1], s[2]} /\ x.p \in {t[1], t[2]}) \/ x.p[1] >= xl
              [] OTHER -> (s = t /\ ESubj(T[i]) # ESubj(T[j])) \/ x.p[1] >= xl
  IN /\ Cardinality(ids) = Len(all) /\ ids = DOMAIN T
     /\ Linked(T, ids) /\ LeftFirst(T, ids)
     /\ \A i \in ids : EPt(T[i]) # EPt(T[EOther(T[i])])
     /\ SweepSorted(T, sub.sorted)
     /\ \A k \in 1..Len(sub.sorted) : \A m \in 1..Len(sub.rest) : ~Lex(EPt(T[sub.rest[m]]), EPt(T[sub.sorted[k]]))
     /\ \A i \in L : LET o == EOther(T[i])
                         pi == CHOOSE k \in 1..Len(all) : all[k] = i
                         po == CHOOSE k \in 1..Len(all) : all[k] = o
                     IN pi < po                                          \* left event first in sweep order
     /\ \A i \in ids : EPt(T[i]) \in Vin /\ EDev(T[i]) <= (IF exact THEN 0 ELSE DevTolS)
     /\ \A i \in L : \A j \in L : i < j => meetOK(i, j)                  \* planarity
     /\ atomsOfSubs(TRUE) = atomsOfInputs(EA)                            \* each input edge is covered exactly by its chain
     /\ atomsOfSubs(FALSE) = atomsOfInputs(EB)

\* ------------------------------------------------------------------ C14
\* status-line "below" of a vertical sub-segment is its right side, "above" its left side
BelowIdx(s) == IF s[1][1] = s[2][1] THEN 2 ELSE 1
AboveIdx(s) == IF s[1][1] = s[2][1] THEN 1 ELSE 2

ClassificationOK(op, sub, fq, A, B, allowStale) ==
  LET T == sub.ev
      all == sub.sorted \o sub.rest
      ids == {all[k] : k \in 1..Len(all)}
      EA == EdgeRecs(A)  EB == EdgeRecs(B)
      Vin == ArrVerts(Segs(EA) \cup Segs(EB))
      sbx == IF fq.sbb = <<>> THEN -Inf ELSE fq.sbb[3]
      cbx == IF fq.cbb = <<>> THEN -Inf ELSE fq.cbb[3]
      lastE == T[sub.sorted[Len(sub.sorted)]]
      broke == Len(sub.sorted) > 0 /\ ((op = "int" /\ lastE[2] > Mn(sbx, cbx)) \/ (op = "diff" /\ lastE[2] > sbx))
      nproc == IF broke THEN Len(sub.sorted) - 1 ELSE Len(sub.sorted)
      P == {sub.sorted[k] : k \in 1..nproc}
      PL == {i \in P : ELeft(T[i])}
      isAtom(s) == ~\E v \in Vin : InteriorOf(v, s)
      twins(i) == {j \in LeftIds(T, ids) : j # i /\ SegOf(T, j) = SegOf(T, i) /\ ESubj(T[j]) # ESubj(T[i])}
      mem(s) == [a |-> Par(EA, s), b |-> Par(EB, s)]
      resIn(m, k) == InOp(op, m.a[k], m.b[k])
  IN \A i \in PL :
       LET e == T[i]  s == SegOf(T, i) IN
       isAtom(s) =>
         LET m == mem(s)
             bi == BelowIdx(s)  ai == AboveIdx(s)
             own == IF ESubj(e) THEN m.a ELSE m.b
             oth == IF ESubj(e) THEN m.b ELSE m.a
             changes == resIn(m, bi) # resIn(m, ai)
             tw == twins(i)
         IN /\ EIo(e) = own[bi]                                  \* crossing it upward leaves its own operand
            /\ IF tw = {} THEN
                  /\ EOio(e) = ~oth[bi]                           \* the other operand is outside at it
                  /\ (ERt(e) # 0) = changes                       \* it is a boundary of the requested result
                  /\ (ERt(e) # 0) => ((ERt(e) = 2) = resIn(m, ai))  \* ... in this direction
               ELSE \* coincident twins: exactly one of the pair carries the boundary, with the combined direction
                  \A j \in tw : (j \in P /\ i < j) =>
                     LET n == Cardinality({k \in {i, j} : ERt(T[k]) # 0}) IN
                     /\ n = (IF changes THEN 1 ELSE 0)
                     /\ \A k \in {i, j} : ERt(T[k]) # 0 => ((ERt(T[k]) = 2) = resIn(m, ai))
            /\ (EPir(e) # 0 /\ ERt(e) # 0) =>                     \* the recorded lower result edge is a result edge below
                  LET p == T[EPir(e)]  ps == SegOf(T, EPir(e)) IN
                  /\ ELeft(p) /\ ERt(p) # 0 /\ ps[1][1] # ps[2][1]
                  /\ ps[1][1] <= e[2]
                  /\ (e[2] <= ps[2][1] \/ allowStale)              \* allowStale: it WAS below when an ancestor recorded it
                  /\ (e[2] <= ps[2][1] => Orient(ps[1], ps[2], EPt(e)) >= 0)   \* (the extension of an edge that has ended says nothing)
                  /\ EPir(e) # i
                  \* strict reading only: it is the NEAREST one - no other non-vertical result edge q that crosses the sweep
                  \* position of e lies strictly between the recorded edge and e (sub-segments do not cross, so "q above p" is
                  \* decided by the end points of the one that starts later)
                  /\ (allowStale \/ ~\E j \in PL :
                         LET q == T[j]  qs == SegOf(T, j) IN
                         /\ j # i /\ j # EPir(e) /\ ERt(q) # 0 /\ qs[1][1] # qs[2][1] /\ qs # ps
                         /\ qs[1][1] <= e[2] /\ e[2] < qs[2][1]
                         /\ Orient(qs[1], qs[2], EPt(e)) > 0
                         /\ IF qs[1][1] >= ps[1][1]
                            THEN Orient(ps[1], ps[2], qs[1]) > 0 \/ (Orient(ps[1], ps[2], qs[1]) = 0 /\ Orient(ps[1], ps[2], qs[2]) > 0)
                            ELSE Orient(qs[1], qs[2], ps[1]) < 0 \/ (Orient(qs[1], qs[2], ps[1]) = 0 /\ Orient(qs[1], qs[2], ps[2]) < 0))

\* ------------------------------------------------------------------ C15
\* the event order of the statement: x, y, right before left, then angular (lower segment
\* first), then subject before clipping.  "undef" where the statement leaves it open
\* (collinear edges of the same operand from the same point: not a valid input).
EvOrderS(T, a, b) ==
  LET ea == T[a] eb == T[b] pa == EPt(ea) pb == EPt(eb)
      oa == EPt(T[EOther(ea)])  ob == EPt(T[EOther(eb)])
  IN IF pa # pb THEN (IF Lex(pa, pb) THEN "yes" ELSE "no")
     ELSE IF ELeft(ea) # ELeft(eb) THEN (IF ~ELeft(ea) THEN "yes" ELSE "no")
     ELSE LET o == IF ELeft(ea) THEN Orient(pa, oa, ob) ELSE Orient(oa, pa, ob)
          IN IF o # 0 THEN (IF o > 0 THEN "yes" ELSE "no")
             ELSE IF ESubj(ea) # ESubj(eb) THEN (IF ESubj(ea) THEN "yes" ELSE "no")
             ELSE "undef"

\* blk = [sortok, order, pairs]: `order` = the events sorted by the library's own cmp (earliest
\* first); pairs = <<ia, ib, cmp(a,b), cmp(b,a)>> on positions ia < ib of that list.  The
\* library's Ord is inverted for its max-heap: cmp(a, b) = Greater (1) iff a comes first.
\* Agreement of every recorded pair with ONE linear order is what makes the relation
\* transitive on the recorded events.
EventOrderOK(T, blk) ==
  /\ blk.sortok
  /\ \A k \in 1..Len(blk.pairs) :
        LET x == blk.pairs[k]  a == blk.order[x[1]]  b == blk.order[x[2]]
        IN /\ x[3] # 0 /\ x[4] # 0                                       \* never Equal for distinct events
           /\ x[4] = -x[3]                                               \* antisymmetric
           /\ x[3] = 1                                                   \* consistent with one total order (transitive)
           /\ LET w == EvOrderS(T, a, b) IN w # "undef" => w = "yes"     \* ... which is the order of the statement

\* vertical separation evidence of sub-segments s, t: <<s somewhere strictly below t, s somewhere strictly above t>>
SideOf(p, t) ==    \* +1: p above t, -1: p below t, 0: on it / not comparable
  IF t[1][1] = t[2][1]
  THEN (IF p[1] # t[1][1] THEN 0 ELSE IF p[2] > t[2][2] THEN 1 ELSE IF p[2] < t[1][2] THEN -1 ELSE 0)
  ELSE (IF p[1] < t[1][1] \/ p[1] > t[2][1] THEN 0 ELSE Sgn(Orient(t[1], t[2], p)))
Separation(s, t) ==
  LET a == {SideOf(s[1], t), SideOf(s[2], t)}  b == {SideOf(t[1], s), SideOf(t[2], s)}
  IN <<(-1 \in a) \/ (1 \in b), (1 \in a) \/ (-1 \in b)>>

\* do the two sub-segments ever lie on the sweep line together?  (the later one starts
\* before the earlier one ends, in sweep order: right events precede left events at a point)
CoOccur(T, a, b) ==
  LET first == IF EvOrderS(T, a, b) = "no" THEN b ELSE a
      second == IF first = a THEN b ELSE a
  IN Lex(EPt(T[second]), EPt(T[EOther(T[first])]))

\* m = entries <<a, b, compare(a,b), compare(b,a)>> for left events a, b with overlapping x-extent
SegmentOrderOK(T, m, strictVertical) ==
  \A k \in 1..Len(m) :
     LET x == m[k] IN
       /\ (x[3] = 0) = (x[1] = x[2]) /\ (x[4] = 0) = (x[1] = x[2])        \* Equal only for the identical segment
       /\ x[4] = -x[3]                                                      \* antisymmetric
       /\ x[1] # x[2] =>
            LET s == SegOf(T, x[1]) t == SegOf(T, x[2])
                i == SegInter(s[1], s[2], t[1], t[2])
                crossing == i.k = "point" /\ InteriorOf(i.p, s) /\ InteriorOf(i.p, t)
                sep == Separation(s, t)
                stacked == /\ s[1][1] = s[2][1] /\ t[1][1] = t[2][1]       \* both vertical, on one line,
                           /\ ESubj(T[x[1]]) # ESubj(T[x[2]])             \* of different operands (finding N4)
            IN (~crossing /\ i.k # "overlap" /\ sep[1] # sep[2] /\ (strictVertical \/ ~stacked \/ CoOccur(T, x[1], x[2])))
                 => (x[3] = -1) = sep[1]

\* ------------------------------------------------------------------ C16
\* contract of possible_intersection on one recorded call:
\* r = [a, b (the two segments, left end first), sa, sb, ioa, iob, code, pushed, npoints, ev]
PossibleIntersectionOK(r, exact) ==
  LET T == r.ev
      a == <<r.a[1], r.a[2]>>  b == <<r.b[1], r.b[2]>>
      x == SegInter(a[1], a[2], b[1], b[2])
      la == T[1] ra == T[2] lb == T[3] rb == T[4]          \* the four original events keep ids 1..4
      untouched == /\ Len(r.pushed) = 0 /\ Len(T) = 4
                   /\ EOther(la) = 2 /\ EOther(ra) = 1 /\ EOther(lb) = 4 /\ EOther(rb) = 3
                   /\ EType(la) = 0 /\ EType(lb) = 0
      newIds == {r.pushed[k] : k \in 1..Len(r.pushed)}
      splitPts(seg, l0) == {EPt(T[k]) : k \in {j \in newIds : T[j][8] = T[l0][8]}}
  IN /\ r.code >= 0                                                       \* no panic
     /\ CASE x.k = "none" -> r.code = 0 /\ untouched
          [] x.k = "point" ->
               LET p == x.p
                   inA == InteriorOf(p, a)  inB == InteriorOf(p, b)
               IN IF a[1] = b[1] \/ a[2] = b[2] \/ (~inA /\ ~inB)
                  THEN untouched                                          \* meet only in a common end point
                  ELSE /\ r.code = 1
                       /\ r.npoints = 1                                   \* one and the same point, bit for bit
                       /\ Len(r.pushed) = 2 * ((IF inA THEN 1 ELSE 0) + (IF inB THEN 1 ELSE 0))
                       /\ \A k \in newIds : /\ EPt(T[k]) = p
                                            /\ EDev(T[k]) <= (IF exact THEN 0 ELSE DevTolS)
                       /\ inA => splitPts(a, 1) = {p}
                       /\ inB => splitPts(b, 3) = {p}
                       /\ ~inA => splitPts(a, 1) = {}
                       /\ ~inB => splitPts(b, 3) = {}
                       /\ Linked(T, DOMAIN T)
          [] OTHER ->      \* collinear overlap
               IF r.sa = r.sb THEN untouched /\ r.code = 0
               ELSE LET lo == x.p hi == x.q
                        cutsA == {q \in {lo, hi} : InteriorOf(q, a)}
                        cutsB == {q \in {lo, hi} : InteriorOf(q, b)}
                        leftCo == a[1] = b[1]
                    IN /\ r.code \in {2, 3}
                       /\ (r.code = 2) = leftCo
                       /\ splitPts(a, 1) = cutsA /\ splitPts(b, 3) = cutsB
                       /\ \A k \in newIds : EDev(T[k]) = 0
                       /\ Linked(T, DOMAIN T)
                       /\ leftCo => /\ EType(lb) = 1                      \* NonContributing
                                    /\ EType(la) = (IF r.ioa = r.iob THEN 2 ELSE 3)
                       /\ ~leftCo => EType(la) = 0 /\ EType(lb) = 0
=============================================================================
