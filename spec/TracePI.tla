------------------------------ MODULE TracePI ------------------------------
(* Recorded outcomes of the real possible_intersection, one per initial state, judged by    *)
(* Stages!PossibleIntersectionOK.                                                          *)
EXTENDS Stages, Json, IOUtils
Recs == ndJsonDeserialize(IOEnv.TRACEFILE)
VARIABLES i, bad
vars == <<i, bad>>
Init == i \in 1..Len(Recs) /\ bad = FALSE
Judge == /\ i # 0 /\ i' = 0
         /\ LET r == Recs[i] IN
            /\ bad' = ~(PossibleIntersectionOK(r, FALSE) /\ r.inbox)
            /\ bad' => PrintT(<<"PIFAIL", r.id>>)
Done == i = 0 /\ UNCHANGED vars
Next == Judge \/ Done
Spec == Init /\ [][Next]_vars
C16_IntersectionStep == ~bad
=============================================================================
