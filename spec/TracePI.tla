------------------------------ MODULE TracePI ------------------------------
(* Recorded outcomes of the real possible_intersection, one per initial state, judged by    *)
(* Stages!PossibleIntersectionOK.                                                          *)
EXTENDS Stages, Json, IOUtils
Recs == ndJsonDeserialize(IOEnv.TRACEFILE)
AxisPar(s) == s[1][1] = s[2][1] \/ s[1][2] = s[2][2]
VARIABLES i, bad
vars == <<i, bad>>
Init == i \in 1..Len(Recs) /\ bad = FALSE
Judge == /\ i # 0 /\ i' = 0
         /\ LET r == Recs[i] IN
            /\ bad' = ~(PossibleIntersectionOK(r, AxisPar(r.a) /\ AxisPar(r.b)) /\ r.inbox)
            /\ bad' => PrintT(<<"PIFAIL", r.id>>)
Done == i = 0 /\ UNCHANGED vars
Next == Judge \/ Done
Spec == Init /\ [][Next]_vars
C16_IntersectionStep == ~bad
=============================================================================
