-------------------------- MODULE TraceOrderExact ---------------------------
(***************************************************************************)
(* C15 on FLOAT events, decided exactly (FloatGeometry: integer arithmetic *)
(* on the bit patterns).  Each record is one real evaluation, in both      *)
(* directions, of the library's Ord on two sweep events a, b at ONE common *)
(* point p whose edges p-oa, p-ob leave p to the same side of the sweep     *)
(* (two left events or two right events) - the only case in which the      *)
(* order of the statement is "angular" - and, for left events, of          *)
(* compare_segments on the two edges.  Most pairs are the two edges at the *)
(* tip of a valid SLIVER: oa and ob nearly, but not exactly, collinear      *)
(* with p (off the line by one rounding error), in power-of-two frames and *)
(* the 8 lattice symmetries.  The angular order is decided by the exact    *)
(* sign of the orientation determinant of the three points AS NUMBERS; no  *)
(* tolerance is involved, and a pair that is exactly collinear is judged   *)
(* only when the statement fixes its order (different operands: subject    *)
(* first).  Clauses: never Equal, antisymmetric, the order of the          *)
(* statement (all three pairs of any three edges at p then agree with ONE  *)
(* angular order, i.e. the relation is transitive); compare_segments of    *)
(* two non-collinear edges from a common left end point = their vertical   *)
(* order right of p.                                                       *)
(***************************************************************************)
EXTENDS FloatGeometry, TLC, Json, IOUtils
Recs == ndJsonDeserialize(IOEnv.TRACEFILE)
VARIABLES i, bad
vars == <<i, bad>>
Init == i \in 1..Len(Recs) /\ bad = {}

FLex(p, q) == FCmp(p[1], q[1]) < 0 \/ (FCmp(p[1], q[1]) = 0 /\ FCmp(p[2], q[2]) < 0)

\* verdict: "ok" | "fail" | "skip" (collinear edges of one operand: not a valid input) | "harness"
Verdict(r) ==
  LET p == r.p  oa == r.oa  ob == r.ob
      honest == /\ ~FSamePt(p, oa) /\ ~FSamePt(p, ob) /\ ~FSamePt(oa, ob)
                /\ IF r.left THEN FLex(p, oa) /\ FLex(p, ob) ELSE FLex(oa, p) /\ FLex(ob, p)
      \* as EvOrderS of Stages.tla: o > 0 <=> a comes first; the library's cmp is inverted for its max-heap (Greater = first)
      o == IF r.left THEN FOrient(p, oa, ob) ELSE FOrient(oa, p, ob)
      want == IF o # 0 THEN o ELSE IF r.sa # r.sb THEN (IF r.sa THEN 1 ELSE -1) ELSE 0
  IN IF ~honest THEN "harness"
     ELSE IF want = 0 THEN "skip"                                            \* collinear edges of one operand from one point: not a valid input
     ELSE IF r.c1 \notin {-1, 1} \/ r.c2 # -r.c1 THEN "fail"                 \* never Equal (no panic), antisymmetric
     ELSE IF want # 0 /\ r.c1 # want THEN "fail"                             \* the order of the statement
     ELSE IF r.left /\ o # 0 /\ ~(r.s1 \in {-1, 1} /\ r.s2 = -r.s1 /\ (r.s1 = -1) = (o > 0)) THEN "fail"   \* segment order = vertical order
     ELSE "ok"

Judge == /\ i # 0 /\ i' = 0
         /\ LET r == Recs[i]  v == Verdict(r) IN
            /\ bad' = IF v \in {"fail", "harness"} THEN {v} ELSE {}
            /\ (v # "ok") => PrintT(<<"ORDEXACT", v, r.id, FOrient(r.p, r.oa, r.ob)>>)
Done == i = 0 /\ UNCHANGED vars
Next == Judge \/ Done
Spec == Init /\ [][Next]_vars
C15_ExactOnFloats == "fail" \notin bad
HarnessHonest == "harness" \notin bad
=============================================================================
