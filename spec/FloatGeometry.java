import java.math.BigInteger;

import tlc2.value.impl.BoolValue;
import tlc2.value.impl.IntValue;
import tlc2.value.impl.StringValue;
import tlc2.value.impl.TupleValue;
import tlc2.value.impl.Value;

/**
 * TLC module override for spec/FloatGeometry.tla: the primitives of that module, evaluated with
 * BigInteger on exactly the integer expressions the TLA+ definitions state. Z(h) = value * 2^1074
 * is an integer for every finite double; because every predicate below is homogeneous in a common
 * power of two, the implementation scales by 2^-emin of the numbers involved instead of 2^1074
 * (same signs, same comparisons, smaller integers).
 */
public class FloatGeometry {
    private static final int BIAS = 1075;

    private static long bits(Value v) {
        String s = ((StringValue) v).val.toString();
        if (s.length() != 16) {
            throw new IllegalArgumentException("FloatGeometry: not a 16-digit bit pattern: " + s);
        }
        return Long.parseUnsignedLong(s, 16);
    }

    /** mantissa (signed) and exponent of a finite double given by its bits: value = m * 2^e */
    private static long mant(long b) {
        long frac = b & 0xfffffffffffffL;
        int be = (int) ((b >>> 52) & 0x7ff);
        if (be == 0x7ff) {
            throw new IllegalArgumentException("FloatGeometry: inf / nan in a trace");
        }
        long m = be == 0 ? frac : (frac | (1L << 52));
        return (b >>> 63) != 0 ? -m : m;
    }

    private static int expo(long b) {
        int be = (int) ((b >>> 52) & 0x7ff);
        return (be == 0 ? 1 : be) - BIAS;
    }

    /** the numbers as integers in units of 2^emin; returns emin in out[0] */
    private static BigInteger[] scaled(long[] bs, int[] eminOut) {
        int emin = Integer.MAX_VALUE;
        for (long b : bs) {
            if (mant(b) != 0) {
                emin = Math.min(emin, expo(b));
            }
        }
        if (emin == Integer.MAX_VALUE) {
            emin = 0;
        }
        BigInteger[] z = new BigInteger[bs.length];
        for (int i = 0; i < bs.length; i++) {
            long m = mant(bs[i]);
            z[i] = m == 0 ? BigInteger.ZERO : BigInteger.valueOf(m).shiftLeft(expo(bs[i]) - emin);
        }
        eminOut[0] = emin;
        return z;
    }

    private static long[] pt(Value p) {
        Value[] e = ((TupleValue) p.toTuple()).elems;
        return new long[] { bits(e[0]), bits(e[1]) };
    }

    private static BigInteger pow2(int k) {
        return BigInteger.ONE.shiftLeft(k);
    }

    /** a * 2^k >= b  for possibly negative k */
    private static boolean geqShift(BigInteger a, int k, BigInteger b) {
        return k >= 0 ? a.shiftLeft(k).compareTo(b) >= 0 : a.compareTo(b.shiftLeft(-k)) >= 0;
    }

    public static Value FCmp(final Value a, final Value b) {
        int[] em = new int[1];
        BigInteger[] z = scaled(new long[] { bits(a), bits(b) }, em);
        return IntValue.gen(z[0].compareTo(z[1]));
    }

    private static BigInteger det(BigInteger[] z) { // p = z0,z1  q = z2,z3  w = z4,z5
        BigInteger dxq = z[2].subtract(z[0]), dyq = z[3].subtract(z[1]);
        BigInteger dxw = z[4].subtract(z[0]), dyw = z[5].subtract(z[1]);
        return dxq.multiply(dyw).subtract(dyq.multiply(dxw));
    }

    public static Value FOrient(final Value p, final Value q, final Value w) {
        long[] a = pt(p), b = pt(q), c = pt(w);
        int[] em = new int[1];
        BigInteger[] z = scaled(new long[] { a[0], a[1], b[0], b[1], c[0], c[1] }, em);
        return IntValue.gen(det(z).signum());
    }

    public static Value FLineFar(final Value p, final Value q, final Value w, final Value d) {
        long[] a = pt(p), b = pt(q), c = pt(w);
        int[] em = new int[1];
        BigInteger[] z = scaled(new long[] { a[0], a[1], b[0], b[1], c[0], c[1] }, em);
        BigInteger dt = det(z);
        BigInteger dx = z[2].subtract(z[0]), dy = z[3].subtract(z[1]);
        BigInteger len2 = dx.multiply(dx).add(dy.multiply(dy));
        // det^2 >= 2^(2(d - emin)) * len2   (units of 2^emin instead of 2^-1074)
        int k = 2 * (((IntValue) d).val - em[0]);
        return geqShift(dt.multiply(dt), -k, len2) ? BoolValue.ValTrue : BoolValue.ValFalse;
    }

    public static Value FNearSeg(final Value p, final Value q, final Value v, final Value d) {
        long[] a = pt(p), b = pt(q), c = pt(v);
        int[] em = new int[1];
        BigInteger[] z = scaled(new long[] { a[0], a[1], b[0], b[1], c[0], c[1] }, em);
        BigInteger dxq = z[2].subtract(z[0]), dyq = z[3].subtract(z[1]);
        BigInteger dxv = z[4].subtract(z[0]), dyv = z[5].subtract(z[1]);
        BigInteger t = dxq.multiply(dxv).add(dyq.multiply(dyv));
        BigInteger len2 = dxq.multiply(dxq).add(dyq.multiply(dyq));
        int k = 2 * (((IntValue) d).val - em[0]);   // r2 = 2^k in these units
        boolean r;
        if (t.signum() <= 0) {
            r = geqShift(BigInteger.ONE, k, dxv.multiply(dxv).add(dyv.multiply(dyv)));
        } else if (t.compareTo(len2) >= 0) {
            BigInteger ex = z[4].subtract(z[2]), ey = z[5].subtract(z[3]);
            r = geqShift(BigInteger.ONE, k, ex.multiply(ex).add(ey.multiply(ey)));
        } else {
            BigInteger dt = det(z);
            r = geqShift(len2, k, dt.multiply(dt));
        }
        return r ? BoolValue.ValTrue : BoolValue.ValFalse;
    }

    public static Value FAbsLeqPow2(final Value x, final Value e) {
        long b = bits(x);
        long m = Math.abs(mant(b));
        if (m == 0) {
            return BoolValue.ValTrue;
        }
        // m * 2^ex <= 2^e
        int k = ((IntValue) e).val - expo(b);
        boolean r = k >= 0 && (k >= 63 || BigInteger.valueOf(m).compareTo(pow2(k)) <= 0);
        return r ? BoolValue.ValTrue : BoolValue.ValFalse;
    }

    public static Value FAreaSgn(final Value ring) {
        Value[] ps = ((TupleValue) ring.toTuple()).elems;
        long[] bs = new long[2 * ps.length];
        for (int i = 0; i < ps.length; i++) {
            long[] c = pt(ps[i]);
            bs[2 * i] = c[0];
            bs[2 * i + 1] = c[1];
        }
        int[] em = new int[1];
        BigInteger[] z = scaled(bs, em);
        BigInteger s = BigInteger.ZERO;
        for (int i = 0; i + 1 < ps.length; i++) {
            s = s.add(z[2 * i].multiply(z[2 * i + 3]).subtract(z[2 * i + 2].multiply(z[2 * i + 1])));
        }
        return IntValue.gen(s.signum());
    }
}
