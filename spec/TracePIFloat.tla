---------------------------- MODULE TracePIFloat ----------------------------
(***************************************************************************)
(* C16 on arbitrary finite float segments: only the clauses the statement  *)
(* makes for them - the step returns, the touched segments stay mutually   *)
(* linked, all new events carry one and the same point (bitwise) and that  *)
(* point lies inside the bounding boxes of both segments.  The facts are   *)
(* float comparisons made by the recorder; the judgement is made here.     *)
(* The documented one-ulp bump of divide_segment (two points (x,y) and     *)
(* (x+ulp,y), x = a left end point) is the recorded finding N2b.           *)
(***************************************************************************)
EXTENDS Integers, Sequences, TLC, Json, IOUtils
Recs == ndJsonDeserialize(IOEnv.TRACEFILE)
VARIABLES i, bad
vars == <<i, bad>>
Init == i \in 1..Len(Recs) /\ bad = {}
Core(r) == /\ r.code \in 0..3 /\ r.inbox /\ r.linked
           /\ (r.code = 0 => r.npushed = 0)
           /\ (r.code = 1 => r.npushed \in {0, 2, 4})
           /\ r.npoints <= 2
OnePoint(r) == r.npoints <= 1
Judge == /\ i # 0 /\ i' = 0
         /\ LET r == Recs[i] IN
            /\ bad' = (IF ~Core(r) \/ (~OnePoint(r) /\ ~r.bump) THEN {"pi"} ELSE {})
                      \cup (IF Core(r) /\ ~OnePoint(r) /\ r.bump THEN {"pi_bump"} ELSE {})
            /\ \A x \in bad' : PrintT(<<"PIFLOATFAIL", x, r.id>>)
Done == i = 0 /\ UNCHANGED vars
Next == Judge \/ Done
Spec == Init /\ [][Next]_vars
C16_FloatContainmentAndCommonPoint == "pi" \notin bad
N2b_NoDivisionBump == "pi_bump" \notin bad
=============================================================================
