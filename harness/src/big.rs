//! Large scenarios (C18, C03): each runs in its own process (`vh stack ...`) on a thread with a
//! painted stack of the requested size and reports the stack high-water mark as one event.
//! A stack overflow kills the process; the orchestrator records the exit status as the event.
use geo_booleanop::boolean::BooleanOp;
use geo_booleanop::splay::{SplaySet, SplayTree};
use geo_types::{Coord, LineString, MultiPolygon, Polygon};
use std::cmp::Ordering;

const PAINT: u64 = 0xA5A5_A5A5_5A5A_5A5A;

/// run `f` on a fresh thread with `stack` bytes of stack; returns (high-water mark in bytes, f's result)
pub fn measure<T: Send + 'static, F: FnOnce() -> T + Send + 'static>(stack: usize, f: F) -> (usize, T) {
    std::thread::Builder::new()
        .stack_size(stack)
        .spawn(move || {
            let marker = 0u8;
            let top = &marker as *const u8 as usize;
            let reserve = 8 * 1024; // our own frames
            let lo = (top - (stack - 96 * 1024)) & !7;
            let hi = (top - reserve) & !7;
            unsafe {
                let mut p = lo;
                while p < hi {
                    std::ptr::write_volatile(p as *mut u64, PAINT);
                    p += 8;
                }
            }
            let r = f();
            let mut p = lo;
            unsafe {
                while p < hi && std::ptr::read_volatile(p as *const u64) == PAINT {
                    p += 8;
                }
            }
            (top - p, r)
        })
        .expect("spawn")
        .join()
        .expect("scenario thread panicked")
}

fn cmp_u(a: &u32, b: &u32) -> Ordering {
    a.cmp(b)
}

fn build(n: usize, order: &str) -> SplayTree<u32, (), fn(&u32, &u32) -> Ordering> {
    let mut t = SplayTree::new(cmp_u as fn(&u32, &u32) -> Ordering);
    let n32 = n as u32;
    match order {
        "asc" => {
            for i in 0..n32 {
                t.insert(i, ());
            }
        }
        "desc" => {
            for i in (0..n32).rev() {
                t.insert(i, ());
            }
        }
        "zigzag" => {
            // alternately the smallest and the largest remaining key
            let (mut lo, mut hi) = (0u32, n32);
            while lo < hi {
                t.insert(lo, ());
                lo += 1;
                if lo < hi {
                    hi -= 1;
                    t.insert(hi, ());
                }
            }
        }
        _ => {
            let mut x: u64 = 0x9E37_79B9_7F4A_7C15;
            for _ in 0..n {
                x ^= x << 13;
                x ^= x >> 7;
                x ^= x << 17;
                t.insert((x % (4 * n as u64 + 1)) as u32, ());
            }
        }
    }
    t
}

/// tree scenarios: build in `order`, then `action`
pub fn tree_scenario(n: usize, order: &str, action: &str) -> u64 {
    let t = build(n, order);
    let len = t.len() as u64;
    match action {
        "drop" => drop(t),
        "clear" => {
            let mut t = t;
            t.clear();
            assert_eq!(t.len(), 0);
        }
        "iter_front_partial" => {
            let mut it = t.into_iter();
            let _ = it.next();
            let _ = it.next();
            drop(it);
        }
        "iter_back_partial" => {
            let mut it = t.into_iter();
            let _ = it.next_back();
            let _ = it.next_back();
            drop(it);
        }
        "iter_all" => {
            let c = t.into_iter().count() as u64;
            assert_eq!(c, len);
        }
        "iter_all_back" => {
            let c = t.into_iter().rev().count() as u64;
            assert_eq!(c, len);
        }
        // the derived iterator forms a maintainer may specialise (nth, nth_back, skip, step_by,
        // last, fold): each must consume or release the rest of the tree iteratively
        "iter_nth_past_end" => {
            let mut it = t.into_iter();
            let _ = it.next();
            let _ = it.next_back();
            let r = it.len();
            assert!(it.nth(r).is_none());
            assert_eq!(it.len(), 0);
            assert!(it.next().is_none() && it.next_back().is_none());
        }
        "iter_nth_back_past_end" => {
            let mut it = t.into_iter();
            let _ = it.next();
            let r = it.len();
            assert!(it.nth_back(r + 1).is_none());
            assert_eq!(it.len(), 0);
        }
        "iter_nth_mid_drop" => {
            let mut it = t.into_iter();
            let x = it.nth(n / 2);
            assert!(x.is_some());
            let y = it.nth_back(n / 4);
            assert!(y.is_some());
            drop(it);
        }
        "iter_skip_all" => {
            let mut it = t.into_iter().skip(n);
            assert!(it.next().is_none());
        }
        "iter_step_by" => {
            let c = t.into_iter().step_by(n / 3 + 1).count();
            assert_eq!(c, 3);
        }
        "iter_last_fold" => {
            let l = t.into_iter().last();
            assert!(l.is_some());
            let t2 = build(n, order);
            let s = t2.into_iter().rev().fold(0u64, |a, _| a + 1);
            assert_eq!(s, len);
        }
        "set_iter_nth" => {
            drop(t);
            let mut s = SplaySet::new(cmp_u as fn(&u32, &u32) -> Ordering);
            if order == "desc" { s.extend((0..n as u32).rev()); } else { s.extend(0..n as u32); }
            let mut it = s.into_iter();
            let _ = it.next();
            assert!(it.nth(n).is_none());
            assert!(it.next().is_none());
            let mut s = SplaySet::new(cmp_u as fn(&u32, &u32) -> Ordering);
            if order == "desc" { s.extend((0..n as u32).rev()); } else { s.extend(0..n as u32); }
            assert!(s.into_iter().skip(n).next().is_none());
        }
        // min / max on the untouched chain (before any lookup has splayed it): the extreme key sits
        // at the far end
        "minmax" => {
            let (lo, hi) = (t.min().copied(), t.max().copied());
            assert!(lo.is_some() && hi.is_some() && lo <= hi);
            if order != "random" {
                assert_eq!((lo, hi), (Some(0), Some(n as u32 - 1)));
            }
            assert_eq!(t.min().copied(), lo);
            assert!(!t.is_empty());
            let mut s = SplaySet::new(cmp_u as fn(&u32, &u32) -> Ordering);
            if order == "desc" { s.extend((0..n as u32).rev()); } else { s.extend(0..n as u32); }
            assert_eq!(s.max().copied(), Some(n as u32 - 1));
            assert_eq!(s.min().copied(), Some(0));
            drop(s);
            drop(t);
        }
        "query" => {
            // lookups splay the chain; every one must stay iterative
            let mut acc = 0u64;
            for k in [0u32, (n / 2) as u32, n as u32, 1, (n as u32).saturating_sub(1)] {
                acc += t.find_key(&k).map(|_| 1).unwrap_or(0);
                acc += t.next(&k).map(|_| 1).unwrap_or(0);
                acc += t.prev(&k).map(|_| 1).unwrap_or(0);
                acc += t.contains(&k) as u64;
            }
            acc += t.min().map(|_| 1).unwrap_or(0) + t.max().map(|_| 1).unwrap_or(0);
            assert!(acc > 0);
            drop(t);
        }
        "set_drop" => {
            drop(t);
            let mut s = SplaySet::new(cmp_u as fn(&u32, &u32) -> Ordering);
            s.extend(0..n as u32);
            assert_eq!(s.len(), n);
            drop(s);
        }
        "remove_all" => {
            let mut t = t;
            for i in 0..n as u32 {
                t.remove(&i);
            }
            drop(t);
        }
        _ => panic!("unknown action {}", action),
    }
    len
}

fn rect(x0: f64, y0: f64, x1: f64, y1: f64) -> Polygon<f64> {
    Polygon::new(
        LineString(vec![Coord { x: x0, y: y0 }, Coord { x: x1, y: y0 }, Coord { x: x1, y: y1 }, Coord { x: x0, y: y1 }, Coord { x: x0, y: y0 }]),
        vec![],
    )
}

/// Boolean-operation scenarios. Returns (input edges, popped events, result polygons).
pub fn bool_scenario(n: usize, shape: &str, op: &str) -> (u64, u64, u64, i64) {
    let (a, b): (MultiPolygon<f64>, MultiPolygon<f64>) = match shape {
        // n thin rectangles all starting at x = 0 (monotone status-line insertion: a chain-shaped
        // tree of 2n segments) against a small subject on the left: intersection / difference
        // stop early and drop the sweep line while it still holds all of them
        "comb" => {
            let teeth: Vec<Polygon<f64>> = (0..n).map(|i| rect(0.0, 2.0 * i as f64, 10.0, 2.0 * i as f64 + 1.0)).collect();
            (MultiPolygon(vec![rect(0.0, 0.25, 1.0, 0.75)]), MultiPolygon(teeth))
        }
        // the same with the comb as the subject (difference keeps sweeping to the subject's end)
        "comb_subject" => {
            let teeth: Vec<Polygon<f64>> = (0..n).map(|i| rect(0.0, 2.0 * i as f64, 10.0, 2.0 * i as f64 + 1.0)).collect();
            (MultiPolygon(teeth), MultiPolygon(vec![rect(0.0, 0.25, 1.0, 0.75)]))
        }
        // n needle triangles with left ends at increasing x and decreasing y (a right-spine
        // status line that the closing edges of the clipping triangle splay into a mixed shape);
        // the clipping triangle lies above all of them: the sweep stops early with 2n open edges
        "needles" => {
            let needles: Vec<Polygon<f64>> = (0..n)
                .map(|i| {
                    let (x, y) = (i as f64, -3.0 * i as f64);
                    Polygon::new(LineString(vec![Coord { x, y }, Coord { x: 1e7, y: y - 1.0 }, Coord { x: 1e7, y: y + 1.0 }, Coord { x, y }]), vec![])
                })
                .collect();
            let clip = Polygon::new(
                LineString(vec![Coord { x: -2.0, y: 0.5 }, Coord { x: n as f64 + 1.0, y: 3.0 }, Coord { x: n as f64 + 1.0, y: 5.0 }, Coord { x: -2.0, y: 0.5 }]),
                vec![],
            );
            (MultiPolygon(needles), MultiPolygon(vec![clip]))
        }
        // staircase of n disjoint rectangles (step k: [k, k+1.5] x [2k, 2k+1]): every step's edges
        // are inserted while the step below is still open, so the chain of "nearest lower result
        // edge" links is n long although the sweep line never holds more than a few segments
        "steps" => {
            let steps: Vec<Polygon<f64>> = (0..n).map(|k| rect(k as f64, 2.0 * k as f64, k as f64 + 1.5, 2.0 * k as f64 + 1.0)).collect();
            (MultiPolygon(steps), MultiPolygon(vec![rect(0.0, 2.0 * n as f64 - 3.0, 0.5, 2.0 * n as f64 - 2.0)]))
        }
        // k x k grid of unit squares against the same grid shifted by half a cell
        "grid" => {
            let k = (n as f64).sqrt().ceil() as usize;
            let g = |d: f64| -> MultiPolygon<f64> {
                let mut v = vec![];
                for i in 0..k {
                    for j in 0..k {
                        v.push(rect(2.0 * i as f64 + d, 2.0 * j as f64 + d, 2.0 * i as f64 + 1.0 + d, 2.0 * j as f64 + 1.0 + d));
                    }
                }
                MultiPolygon(v)
            };
            (g(0.0), g(0.5))
        }
        // one staircase polygon with ~n edges against a long thin rectangle through it
        "stair" => {
            let m = n / 2;
            let mut pts = vec![Coord { x: 0.0, y: 0.0 }];
            for i in 0..m {
                pts.push(Coord { x: (i + 1) as f64, y: i as f64 });
                pts.push(Coord { x: (i + 1) as f64, y: (i + 1) as f64 });
            }
            pts.push(Coord { x: 0.0, y: m as f64 });
            pts.push(Coord { x: 0.0, y: 0.0 });
            let a = MultiPolygon(vec![Polygon::new(LineString(pts), vec![])]);
            (a, MultiPolygon(vec![rect(-1.0, 0.5, m as f64 + 1.0, 0.75)]))
        }
        // DEEP NESTING: n concentric square rings (ring k: outer half-width 4(n-k), a hole of half-width 4(n-k)-2, the next
        // ring strictly inside that hole) against a small square inside the innermost hole: result contours nested 2n deep
        // (holes inside exteriors inside holes ...); no edge of one operand touches an edge of the other
        "nest" => {
            let rings: Vec<Polygon<f64>> = (0..n)
                .map(|k| {
                    let o = 4.0 * (n - k) as f64;
                    let i = o - 2.0;
                    let hole = LineString(vec![Coord { x: -i, y: -i }, Coord { x: -i, y: i }, Coord { x: i, y: i }, Coord { x: i, y: -i }, Coord { x: -i, y: -i }]);
                    let mut p = rect(-o, -o, o, o);
                    p.interiors_push(hole);
                    p
                })
                .collect();
            (MultiPolygon(rings), MultiPolygon(vec![rect(-1.0, -1.0, 1.0, 1.0)]))
        }
        // a vertex of very high degree: n thin triangles share their right-most vertex (0,0)
        // (parts of a multipolygon may touch in a point), the other operand's triangle has it as its
        // left-most vertex and is traced last - walking past all the processed edges at (0,0)
        "hub" => {
            let h = n as f64;
            let tris: Vec<Polygon<f64>> = (0..n)
                .map(|k| {
                    let y = 2.0 * k as f64 - h;
                    Polygon::new(LineString(vec![Coord { x: -1.0, y }, Coord { x: 0.0, y: 0.0 }, Coord { x: -1.0, y: y + 1.0 }, Coord { x: -1.0, y }]), vec![])
                })
                .collect();
            let c = Polygon::new(LineString(vec![Coord { x: 0.0, y: 0.0 }, Coord { x: 1.0, y: -1.0 }, Coord { x: 1.0, y: 1.0 }, Coord { x: 0.0, y: 0.0 }]), vec![]);
            (MultiPolygon(tris), MultiPolygon(vec![c]))
        }
        // the mirror image: the fan opens to the right of the hub, the single triangle lies left
        "hub_right" => {
            let h = n as f64;
            let tris: Vec<Polygon<f64>> = (0..n)
                .map(|k| {
                    let y = 2.0 * k as f64 - h;
                    Polygon::new(LineString(vec![Coord { x: 0.0, y: 0.0 }, Coord { x: 1.0, y }, Coord { x: 1.0, y: y + 1.0 }, Coord { x: 0.0, y: 0.0 }]), vec![])
                })
                .collect();
            let c = Polygon::new(LineString(vec![Coord { x: 0.0, y: 0.0 }, Coord { x: -1.0, y: 1.0 }, Coord { x: -1.0, y: -1.0 }, Coord { x: 0.0, y: 0.0 }]), vec![]);
            (MultiPolygon(tris), MultiPolygon(vec![c]))
        }
        // two crossing combs with n teeth each (see gen::combx_pair): 8n edges, 4n^2 crossings - the
        // result has a closed form (n^2 squares of area 4 in the intersection, ...); "combxfar": the
        // first comb carries an additional far-away rectangle (area 6)
        "combx" | "combxfar" => {
            let t = n as i64;
            let l = 4 * t + 6;
            let mut a: Vec<(i64, i64)> = vec![(0, 0)];
            for i in 0..t {
                a.push((l, 4 * i));
                a.push((l, 4 * i + 2));
                if i + 1 < t {
                    a.push((2, 4 * i + 2));
                    a.push((2, 4 * i + 4));
                }
            }
            a.push((0, 4 * (t - 1) + 2));
            let b: Vec<(i64, i64)> = a.iter().rev().map(|p| (p.1 + 3, p.0 - 3)).collect();
            let ring = |r: &Vec<(i64, i64)>| {
                let mut v: Vec<Coord<f64>> = r.iter().map(|p| Coord { x: p.0 as f64, y: p.1 as f64 }).collect();
                v.push(v[0]);
                Polygon::new(LineString(v), vec![])
            };
            let mut pa = vec![ring(&a)];
            if shape == "combxfar" {
                pa.push(rect(100000.0, 50.0, 100003.0, 52.0));
            }
            (MultiPolygon(pa), MultiPolygon(vec![ring(&b)]))
        }
        _ => panic!("unknown shape {}", shape),
    };
    let edges: u64 = a.0.iter().chain(b.0.iter()).map(|p| (p.exterior().0.len() - 1) as u64).sum();
    geo_booleanop::boolean::verif::set_budget(8 * edges * 64 + 64); // generous linear budget: these inputs have O(n) intersections
    let r = a.boolean(&b, crate::run::op_of(op));
    let popped = geo_booleanop::boolean::verif::popped();
    // projection of the result: number of polygons and twice its area (exterior minus holes; exact
    // for the integer scenarios)
    let ring_area2 = |ls: &LineString<f64>| -> f64 { ls.0.windows(2).map(|w| w[0].x * w[1].y - w[1].x * w[0].y).sum::<f64>().abs() };
    let area2: f64 = r.0.iter().map(|p| ring_area2(p.exterior()) - p.interiors().iter().map(ring_area2).sum::<f64>()).sum();
    (edges, popped, r.0.len() as u64, area2.round() as i64)
}
