//! Session recorder for the public Boolean operations (properties C01..C12).
//! A session is a sequence of events over NAMED values: `def` (a generator-made operand, with
//! its relation to earlier names) and `call` (one real library call, result stored under a new
//! name and passed on, exactly as returned, to later calls). One ndjson line per session.
use crate::gen::{self, IMp, IPoly, P};
use crate::rng::Rng;
use crate::run::{self, Fl, Snapped};
use geo_types::MultiPolygon;
use std::collections::HashMap;
use std::fmt::Write as _;

#[derive(Clone)]
pub struct Val {
    pub k: i32,
    pub g64: Option<MultiPolygon<f64>>,
    pub g32: Option<MultiPolygon<f32>>,
    pub n_edges: usize,
    pub n_polys: usize,
    pub mag: f64,
}

pub struct Sess {
    pub touch: bool,
    pub sid: u64,
    pub kind: String,
    pub family: String,
    pub seed: u64,
    pub events: Vec<String>,
    pub vals: HashMap<String, Val>,
    pub nres: usize,
    pub mag: f64,
}

impl Sess {
    pub fn new(sid: u64, kind: &str, family: &str, seed: u64) -> Sess {
        Sess { touch: false, sid, kind: kind.into(), family: family.into(), seed, events: vec![], vals: HashMap::new(), nres: 0, mag: 1.0 }
    }

    /// define a named operand; `rel` is the JSON fragment describing its relation to earlier names
    pub fn def(&mut self, name: &str, mp: &IMp, k: i32, rel: &str) {
        self.def_nz(name, mp, k, rel, (false, false))
    }

    /// `nz`: zeros on the x / y axis are handed to the library as -0.0 (a reflected operand)
    pub fn def_nz(&mut self, name: &str, mp: &IMp, k: i32, rel: &str, nz: (bool, bool)) {
        let g64 = run::to_geo_nz::<f64>(mp, k, nz);
        let g32 = run::to_geo_nz::<f32>(mp, if k >= 1000 { k } else { k.clamp(-110, 100) }, nz);
        let mag = run::magnitude(&[mp]);
        self.mag = self.mag.max(mag);
        let s = run::snap(&g64, k, mag);
        let seen = run::snapped_to_imp(&s);
        let big = mag > 4096.0;
        self.events.push(format!(
            "{{\"ev\":\"def\",\"name\":{},\"k\":{},\"big\":{},\"touch\":{},\"opaque\":false,\"nedges\":0,\"mp\":{},{}}}",
            run::jstr(name),
            k,
            big,
            self.touch,
            run::json_snapped(&s),
            rel
        ));
        self.vals.insert(
            name.to_string(),
            Val { k, g64: Some(g64), g32: Some(g32), n_edges: gen::n_edges(&seen), n_polys: seen.len(), mag },
        );
    }

    pub fn fresh(&mut self) -> String {
        self.nres += 1;
        format!("R{}", self.nres)
    }

    fn call_t<F: Fl>(
        x: &MultiPolygon<F>,
        y: &MultiPolygon<F>,
        k: i32,
        mag: f64,
        n: usize,
        op: &str,
        px: char,
        py: char,
    ) -> (run::Outcome, Option<MultiPolygon<F>>, Option<Snapped>, [String; 4]) {
        let budget = 8 * (n as u64) * (n as u64) + 64;
        let xd0 = run::digest(x);
        let yd0 = run::digest(y);
        // equal operands: every other such call hands over ONE object as both operands (a.op(&a))
        let alias = std::ptr::eq(x, y);
        let (o, r, xd1, yd1) = run::call_guarded_alias(x, y, alias, run::op_of(op), px, py, budget, 20);
        if o.outcome == "timeout" {
            HUNG.store(true, std::sync::atomic::Ordering::SeqCst);
        }
        let s = r.as_ref().map(|m| run::snap(m, k, mag));
        (o, r, s, [xd0, xd1, yd0, yd1])
    }

    fn call_event(res: &str, op: &str, x: &str, y: &str, px: char, py: char, f: &str, thr: usize, o: &run::Outcome, s: &Option<Snapped>, d: &[String; 4]) -> String {
        let mut e = String::new();
        let _ = write!(
            e,
            "{{\"ev\":\"call\",\"res\":{},\"op\":\"{}\",\"x\":{},\"y\":{},\"px\":\"{}\",\"py\":\"{}\",\"F\":\"{}\",\"thr\":{},\"outcome\":\"{}\",\"msg\":{},\"popped\":{},\"mp\":{},\"bits\":\"{}\",\"xd\":[\"{}\",\"{}\"],\"yd\":[\"{}\",\"{}\"]}}",
            run::jstr(res),
            op,
            run::jstr(x),
            run::jstr(y),
            px,
            py,
            f,
            thr,
            o.outcome,
            run::jstr(&o.msg),
            o.popped.min(1 << 30),
            s.as_ref().map(run::json_snapped).unwrap_or_else(|| "[]".into()),
            s.as_ref().map(|s| s.bits.clone()).unwrap_or_default(),
            d[0],
            d[1],
            d[2],
            d[3]
        );
        e
    }

    /// one real call; the result is stored under a fresh name and returned
    pub fn call(&mut self, op: &str, x: &str, y: &str, px: char, py: char, f32_: bool) -> String {
        if HUNG.load(std::sync::atomic::Ordering::SeqCst) {
            return x.to_string(); // a previous call never returned: stop calling, the session ends here
        }
        let res = self.fresh();
        let (vx, vy) = (self.vals[x].clone(), self.vals[y].clone());
        assert_eq!(vx.k, vy.k, "operands must be in the same frame");
        let n = vx.n_edges + vy.n_edges;
        let px = if vx.n_polys == 1 { px } else { 'm' };
        let py = if vy.n_polys == 1 { py } else { 'm' };
        // the deviation figure is relative to the magnitude of THIS call's operands (never to
        // session state, so that equal calls are recorded equally wherever they occur)
        let mag = vx.mag.max(vy.mag);
        // A op A: alternately as two equal objects and as one object passed twice
        let same_obj = x == y && self.nres % 2 == 0;
        if f32_ {
            let gx = vx.g32.as_ref().expect("f32 value");
            let (o, r, s, d) = Self::call_t::<f32>(gx, if same_obj { gx } else { vy.g32.as_ref().expect("f32 value") }, vx.k, mag, n, op, px, py);
            self.events.push(Self::call_event(&res, op, x, y, px, py, "f32", 0, &o, &s, &d));
            let (ne, np) = s.as_ref().map(|s| (gen::n_edges(&run::snapped_to_imp(s)), s.polys.len())).unwrap_or((0, 0));
            self.vals.insert(res.clone(), Val { k: vx.k, g64: None, g32: r, n_edges: ne, n_polys: np, mag });
        } else {
            let gx = vx.g64.as_ref().expect("f64 value");
            let (o, r, s, d) = Self::call_t::<f64>(gx, if same_obj { gx } else { vy.g64.as_ref().expect("f64 value") }, vx.k, mag, n, op, px, py);
            self.events.push(Self::call_event(&res, op, x, y, px, py, "f64", 0, &o, &s, &d));
            let (ne, np) = s.as_ref().map(|s| (gen::n_edges(&run::snapped_to_imp(s)), s.polys.len())).unwrap_or((0, 0));
            self.vals.insert(res.clone(), Val { k: vx.k, g64: r, g32: None, n_edges: ne, n_polys: np, mag });
        }
        res
    }

    /// the same calls from several threads at once (f64); events carry the thread number
    pub fn threaded_calls(&mut self, calls: &[(String, String, String)], threads: usize, reps: usize) {
        // every worker is a REAL fresh thread making its calls directly (its own thread-local state,
        // its own call history); a watchdog on the channel turns a thread that never finishes into
        // outcome "timeout"
        let mut rxs = vec![];
        for t in 0..threads {
            let mut work = vec![];
            for r in 0..reps {
                let c = &calls[(t + r) % calls.len()];
                let (vx, vy) = (self.vals[&c.1].clone(), self.vals[&c.2].clone());
                work.push((c.clone(), vx, vy));
            }
            let (tx, rx) = std::sync::mpsc::channel();
            let _ = std::thread::Builder::new().stack_size(64 << 20).spawn(move || {
                for (c, vx, vy) in work {
                    let n = vx.n_edges + vy.n_edges;
                    let mag = vx.mag.max(vy.mag);
                    let (x, y) = (vx.g64.as_ref().unwrap(), vy.g64.as_ref().unwrap());
                    let budget = 8 * (n as u64) * (n as u64) + 64;
                    let (xd0, yd0) = (run::digest(x), run::digest(y));
                    let (o, r) = run::call(x, y, run::op_of(&c.0), 'm', 'm', budget);
                    let d = [xd0, run::digest(x), yd0, run::digest(y)];
                    let s = r.as_ref().map(|m| run::snap(m, vx.k, mag));
                    if tx.send((c, o, s, d)).is_err() {
                        return;
                    }
                }
            });
            rxs.push((t, rx, reps));
        }
        for (t, rx, reps) in rxs {
            for _ in 0..reps {
                match rx.recv_timeout(std::time::Duration::from_secs(30)) {
                    Ok((c, o, s, d)) => {
                        let res = self.fresh();
                        self.events.push(Self::call_event(&res, &c.0, &c.1, &c.2, 'm', 'm', "f64", t + 1, &o, &s, &d));
                    }
                    Err(_) => {
                        HUNG.store(true, std::sync::atomic::Ordering::SeqCst);
                        let res = self.fresh();
                        let o = run::Outcome { outcome: "timeout".into(), msg: "worker thread did not deliver within 30 s".into(), popped: 0 };
                        let c = &calls[t % calls.len()];
                        let d = [String::new(), String::new(), String::new(), String::new()];
                        self.events.push(Self::call_event(&res, &c.0, &c.1, &c.2, 'm', 'm', "f64", t + 1, &o, &None, &d));
                        break;
                    }
                }
            }
        }
    }

    pub fn finish(&self) -> String {
        format!(
            "{{\"sid\":{},\"kind\":\"{}\",\"family\":\"{}\",\"seed\":{},\"events\":[{}]}}",
            self.sid,
            self.kind,
            self.family,
            self.seed,
            self.events.join(",")
        )
    }
}

/// set when a library call did not return: the process must stop after the current session
pub static HUNG: std::sync::atomic::AtomicBool = std::sync::atomic::AtomicBool::new(false);

pub const BASE: &str = "\"rel\":\"base\"";

/// family "rectw" = axis-parallel operands presented in a non-representable frame (int / d)
fn frame_for(fam: &str, rng: &mut Rng) -> i32 {
    if fam == "rectw" {
        *rng.pick(&[1010, 1003, 1007, 1010])
    } else {
        0
    }
}

fn keep_one(polys: Vec<(Vec<P>, Vec<Vec<P>>)>, rng: &mut Rng) -> Vec<(Vec<P>, Vec<Vec<P>>)> {
    if polys.len() <= 1 {
        return polys;
    }
    let i = rng.below(polys.len() as u64) as usize;
    vec![polys[i].clone()]
}

/// operand pair of a family in canonical form (exterior CCW, holes CW, unclosed rings)
pub fn canon_pair(fam: &str, kmax: i64, rng: &mut Rng) -> (Vec<(Vec<P>, Vec<Vec<P>>)>, Vec<(Vec<P>, Vec<Vec<P>>)>) {
    if fam == "frames" {
        let (x, y) = gen::frames_pair(rng);
        return if rng.chance(1, 2) { (x, y) } else { (y, x) };
    }
    if fam == "tfan" {
        let (x, y) = gen::tfan_pair(rng);
        return if rng.chance(1, 2) { (x, y) } else { (y, x) };
    }
    if fam == "pinch" {
        let mut v = gen::pinch_set(rng, 2);
        let y = v.pop().unwrap();
        return (v.pop().unwrap(), y);
    }
    if fam == "holefill" {
        let mut v = gen::holefill_set(rng, 2);
        let y = v.pop().unwrap();
        return (v.pop().unwrap(), y);
    }
    if fam == "lamina" {
        let mut v = gen::lamina_set(rng, 2);
        let y = v.pop().unwrap();
        return (v.pop().unwrap(), y);
    }
    if fam == "onion" {
        let mut v = gen::onion_set(rng, 2);
        let y = v.pop().unwrap();
        return (v.pop().unwrap(), y);
    }
    if fam == "teeth" {
        let mut v = gen::teeth_set(rng, 2);
        let y = v.pop().unwrap();
        let x = v.pop().unwrap();
        return if rng.chance(1, 2) { (x, y) } else { (y, x) };
    }
    if fam == "fan" {
        let (x, y) = gen::fan_pair(rng);
        return if rng.chance(1, 2) { (x, y) } else { (y, x) };
    }
    if let Some(bits) = fam.strip_prefix("bigfan").and_then(|b| b.parse::<u32>().ok()) {
        let (x, y) = gen::bigfan_pair(rng, bits);
        return if rng.chance(1, 2) { (x, y) } else { (y, x) };
    }
    if let Some(bits) = fam.strip_prefix("bigsliver").and_then(|b| b.parse::<u32>().ok()) {
        let (x, y) = gen::bigsliver_pair(rng, bits);
        return if rng.chance(1, 2) { (x, y) } else { (y, x) };
    }
    if fam == "lat" {
        let (x, y) = gen::lat_pair(rng);
        return if rng.chance(1, 2) { (x, y) } else { (y, x) };
    }
    if fam == "latraw" {
        return gen::latraw_pair(rng);
    }
    if fam == "tshare" {
        let (x, y) = gen::tshare_pair(rng);
        return if rng.chance(1, 2) { (x, y) } else { (y, x) };
    }
    if fam == "cxsplit" {
        let (x, y) = gen::cxsplit_pair(kmax, rng);
        return if rng.chance(1, 2) { (x, y) } else { (y, x) };
    }
    if fam == "hang" {
        let (x, y) = gen::hang_pair(rng);
        return if rng.chance(1, 2) { (x, y) } else { (y, x) };
    }
    if fam.starts_with("en:") {
        return gen::enum_pair(fam);
    }
    if fam == "combx" {
        let (x, y) = gen::combx_pair(rng);
        return if rng.chance(1, 2) { (x, y) } else { (y, x) };
    }
    loop {
        let f = gen::family(fam, kmax, rng);
        let (a, b) = if fam.ends_with("cxabut") || fam.ends_with("cxsub") {
            let (x, y) = gen::related_pair(&f, rng);
            if rng.chance(1, 2) { (x, y) } else { (y, x) }
        } else {
            (gen::operand(&f, false, rng), gen::operand(&f, true, rng))
        };
        if a.is_empty() && b.is_empty() {
            continue;
        }
        return (a, b);
    }
}

/// three operands of one family in canonical form (C independent of A and B)
pub fn canon_triple(fam: &str, kmax: i64, rng: &mut Rng) -> [Vec<(Vec<P>, Vec<Vec<P>>)>; 3] {
    if fam == "frames" {
        let (a, b) = gen::frames_pair(rng);
        let (_, c) = gen::frames_pair(rng);
        return [a, b, c];
    }
    if fam == "latraw" {
        let (a, b) = gen::latraw_pair(rng);
        let (c, _) = gen::latraw_pair(rng);
        return [a, b, c];
    }
    if fam == "pinch" {
        let mut v = gen::pinch_set(rng, 3);
        let c = v.pop().unwrap();
        let b = v.pop().unwrap();
        return [v.pop().unwrap(), b, c];
    }
    if fam == "holefill" {
        let mut v = gen::holefill_set(rng, 3);
        let c = v.pop().unwrap();
        let b = v.pop().unwrap();
        return [v.pop().unwrap(), b, c];
    }
    if fam == "lamina" {
        let mut v = gen::lamina_set(rng, 3);
        let c = v.pop().unwrap();
        let b = v.pop().unwrap();
        return [v.pop().unwrap(), b, c];
    }
    if fam == "onion" {
        let mut v = gen::onion_set(rng, 3);
        let c = v.pop().unwrap();
        let b = v.pop().unwrap();
        return [v.pop().unwrap(), b, c];
    }
    if fam == "teeth" {
        let mut v = gen::teeth_set(rng, 3);
        let c = v.pop().unwrap();
        let b = v.pop().unwrap();
        return [v.pop().unwrap(), b, c];
    }
    let fam = if fam == "lat" { "aff-cx" } else { fam };
    let f = gen::family(fam, kmax, rng);
    let (a, b) = if fam.ends_with("cxabut") || fam.ends_with("cxsub") { gen::related_pair(&f, rng) } else { (gen::operand(&f, false, rng), gen::operand(&f, true, rng)) };
    let c = gen::operand(&f, rng.chance(1, 2), rng);
    [a, b, c]
}

fn too_big(a: &IMp, b: &IMp, max_edges: usize) -> bool {
    gen::n_edges(a) + gen::n_edges(b) > max_edges
}

pub struct Opts {
    pub kmax: i64,
    pub max_edges: usize,
}

/// kind "five": the five results of one pair, the swapped calls and the self-operations
pub fn sess_five(sid: u64, fam: &str, seed: u64, o: &Opts) -> Sess {
    let mut rng = Rng::new(seed);
    let mut s = Sess::new(sid, "five", fam, seed);
    s.touch = fam.starts_with("big");
    let fr = frame_for(fam, &mut rng);
    let (a, b) = loop {
        let (ca, cb) = canon_pair(fam, o.kmax, &mut rng);
        let a = gen::present(&ca, gen::RANDOMISED, &mut rng);
        let b = gen::present(&cb, gen::RANDOMISED, &mut rng);
        if !too_big(&a, &b, o.max_edges) {
            break (a, b);
        }
    };
    s.def("A", &a, fr, BASE);
    s.def("B", &b, fr, BASE);
    for (op, _) in run::OPS {
        s.call(op, "A", "B", 'm', 'm', false);
    }
    s.call("diff", "B", "A", 'm', 'm', false);
    for op in ["int", "union", "xor"] {
        s.call(op, "B", "A", 'm', 'm', false);
    }
    for (op, _) in run::OPS {
        s.call(op, "A", "A", 'm', 'm', false);
    }
    s
}

/// kind "single": one call per operation on one pair (cheapest unit for C01/C02/C04)
pub fn sess_single(sid: u64, fam: &str, seed: u64, o: &Opts) -> Sess {
    let mut rng = Rng::new(seed);
    let mut s = Sess::new(sid, "single", fam, seed);
    s.touch = fam.starts_with("big");
    let fr = frame_for(fam, &mut rng);
    let (a, b) = loop {
        let (mut ca, mut cb) = canon_pair(fam, o.kmax, &mut rng);
        let whole = fam.starts_with("en:");     // enumerated families: the operands are the enumerated regions, nothing is dropped
        if !whole && rng.chance(1, 4) {
            ca = keep_one(ca, &mut rng);
        }
        if !whole && rng.chance(1, 4) {
            cb = keep_one(cb, &mut rng);
        }
        let a = gen::present(&ca, gen::RANDOMISED, &mut rng);
        let b = gen::present(&cb, gen::RANDOMISED, &mut rng);
        if !too_big(&a, &b, o.max_edges) {
            break (a, b);
        }
    };
    s.def("A", &a, fr, BASE);
    s.def("B", &b, fr, BASE);
    let f32_ok = fam.strip_prefix("bigfan").or_else(|| fam.strip_prefix("bigsliver")).and_then(|b| b.parse::<u32>().ok()).map(|b| b <= 24).unwrap_or(true);
    let f32_ = f32_ok && rng.chance(1, 5);
    for (op, _) in run::OPS {
        s.call(op, "A", "B", 'p', 'p', f32_);
    }
    s
}

/// kind "repr": re-presentations of the same operands and the four trait pairings
pub fn sess_repr(sid: u64, fam: &str, seed: u64, o: &Opts, f32_: bool) -> Sess {
    let mut rng = Rng::new(seed);
    let mut s = Sess::new(sid, if f32_ { "repr32" } else { "repr" }, fam, seed);
    s.touch = fam.starts_with("big");
    let fr = frame_for(fam, &mut rng);
    let (ca, cb) = loop {
        let (mut ca, mut cb) = canon_pair(fam, o.kmax, &mut rng);
        if rng.chance(1, 2) {
            ca = keep_one(ca, &mut rng);
        }
        if rng.chance(1, 2) {
            cb = keep_one(cb, &mut rng);
        }
        let a = gen::present(&ca, gen::PLAIN, &mut rng);
        let b = gen::present(&cb, gen::PLAIN, &mut rng);
        if !too_big(&a, &b, o.max_edges) && !ca.is_empty() && !cb.is_empty() {
            break (ca, cb);
        }
    };
    s.def("A", &gen::present(&ca, gen::PLAIN, &mut rng), fr, BASE);
    s.def("B", &gen::present(&cb, gen::PLAIN, &mut rng), fr, BASE);
    let wild = gen::Present { rotate: true, reverse: true, shuffle: true, dups: true, close: false };
    s.def("A2", &gen::present(&ca, wild, &mut rng), fr, "\"rel\":\"rewrite\",\"of\":\"A\"");
    s.def("B2", &gen::present(&cb, wild, &mut rng), fr, "\"rel\":\"rewrite\",\"of\":\"B\"");
    for (op, _) in run::OPS {
        s.call(op, "A", "B", 'm', 'm', f32_);
        s.call(op, "A2", "B2", 'm', 'm', f32_);
        if rng.chance(1, 2) {
            s.call(op, "A2", "B", 'm', 'm', f32_);
        } else {
            s.call(op, "A", "B2", 'm', 'm', f32_);
        }
        // the other trait implementations (take effect only for one-polygon operands)
        s.call(op, "A", "B", 'p', 'p', f32_);
        s.call(op, "A", "B", 'p', 'm', f32_);
        s.call(op, "A", "B", 'm', 'p', f32_);
        s.call(op, "B", "A", 'p', 'm', f32_);
        s.call(op, "B", "A", 'm', 'p', f32_);
    }
    s
}

/// kind "xform": scalings by powers of two, integer translations, the 8 lattice symmetries
pub fn sess_xform(sid: u64, fam: &str, seed: u64, o: &Opts) -> Sess {
    let mut rng = Rng::new(seed);
    let mut s = Sess::new(sid, "xform", fam, seed);
    let (a, b) = loop {
        let (ca, cb) = canon_pair(fam, o.kmax, &mut rng);
        let a = gen::present(&ca, gen::RANDOMISED, &mut rng);
        let b = gen::present(&cb, gen::RANDOMISED, &mut rng);
        if !too_big(&a, &b, o.max_edges) {
            break (a, b);
        }
    };
    s.def("A", &a, 0, BASE);
    s.def("B", &b, 0, BASE);
    let k = *rng.pick(&[1i32, 2, 7, -1, -3, 20, -20, 40, -40, 100, -100, 200, -200]);
    s.def("As", &a, k, &format!("\"rel\":\"scale\",\"of\":\"A\",\"sk\":{}", k));
    s.def("Bs", &b, k, &format!("\"rel\":\"scale\",\"of\":\"B\",\"sk\":{}", k));
    let d = (rng.range(-50, 50), rng.range(-50, 50));
    let at = gen::map_mp(&a, &|p| (p.0 + d.0, p.1 + d.1));
    let bt = gen::map_mp(&b, &|p| (p.0 + d.0, p.1 + d.1));
    s.def("At", &at, 0, &format!("\"rel\":\"translate\",\"of\":\"A\",\"d\":[{},{}]", d.0, d.1));
    s.def("Bt", &bt, 0, &format!("\"rel\":\"translate\",\"of\":\"B\",\"d\":[{},{}]", d.0, d.1));
    let t = rng.range(1, 7) as u32;
    let ay = gen::map_mp(&a, &|p| gen::sym(t, p));
    let by = gen::map_mp(&b, &|p| gen::sym(t, p));
    // a reflection computed on the float coordinates turns 0.0 into -0.0: hand over exactly that
    let nz = if rng.chance(2, 3) { ([1, 3, 5, 7].contains(&t), [2, 3, 6, 7].contains(&t)) } else { (false, false) };
    s.def_nz("Ay", &ay, 0, &format!("\"rel\":\"sym\",\"of\":\"A\",\"t\":{},\"negzero\":[{},{}]", t, nz.0, nz.1), nz);
    let nzb = if rng.chance(1, 4) { (false, false) } else { nz };
    s.def_nz("By", &by, 0, &format!("\"rel\":\"sym\",\"of\":\"B\",\"t\":{},\"negzero\":[{},{}]", t, nzb.0, nzb.1), nzb);
    for (op, _) in run::OPS {
        s.call(op, "A", "B", 'm', 'm', false);
        s.call(op, "As", "Bs", 'm', 'm', false);
        s.call(op, "At", "Bt", 'm', 'm', false);
        s.call(op, "Ay", "By", 'm', 'm', false);
    }
    s
}

fn far_part(a: &IMp, b: &IMp, side: u32, rng: &mut Rng) -> IPoly {
    let ba = gen::bbox(a);
    let bb = gen::bbox(b);
    let u = match (ba, bb) {
        (Some(x), Some(y)) => (x.0.min(y.0), x.1.min(y.1), x.2.max(y.2), x.3.max(y.3)),
        (Some(x), None) | (None, Some(x)) => x,
        _ => (0, 0, 0, 0),
    };
    // sizes relative to the extent of the operands (families scaled to integral meeting points have extents in the
    // hundreds): the far part may be taller / wider than everything else, so that it moves the operand's bounding box
    // in the OTHER direction too (a part far to the right that raises the top of the box)
    let ext = (u.2 - u.0).max(u.3 - u.1).max(8);
    let m = (ext / 4).max(3);
    let gap = rng.range(1, 40.max(m));
    let tall = rng.chance(1, 2);
    let (w, h) = (rng.range(1, 6.max(m)), rng.range(1, 6.max(if tall { ext + m } else { m })));
    let (w, h) = if side < 2 { (w, h) } else { (h, w) };     // the long dimension runs along the side the part is placed on
    let (x0, y0) = match side {
        0 => (u.0 - gap - w, rng.range(u.1 - m, u.3 + 3)),
        1 => (u.2 + gap, rng.range(u.1 - m, u.3 + 3)),
        2 => (rng.range(u.0 - m, u.2 + 3), u.3 + gap),
        _ => (rng.range(u.0 - m, u.2 + 3), u.1 - gap - h),
    };
    let ring = if rng.chance(1, 2) {
        vec![(x0, y0), (x0 + w, y0), (x0 + w, y0 + h), (x0, y0 + h), (x0, y0)]
    } else {
        vec![(x0, y0), (x0 + w, y0), (x0, y0 + h), (x0, y0)]
    };
    IPoly { ext: ring, holes: vec![] }
}

/// kind "far": far-away extra parts on either operand; pairs with disjoint / touching boxes
pub fn sess_far(sid: u64, fam: &str, seed: u64, o: &Opts) -> Sess {
    let mut rng = Rng::new(seed);
    let mut s = Sess::new(sid, "far", fam, seed);
    let fr = frame_for(fam, &mut rng);
    let (a, mut b) = loop {
        let (ca, cb) = canon_pair(fam, o.kmax, &mut rng);
        let a = gen::present(&ca, gen::RANDOMISED, &mut rng);
        let b = gen::present(&cb, gen::RANDOMISED, &mut rng);
        if !too_big(&a, &b, o.max_edges) {
            break (a, b);
        }
    };
    // one third of the sessions: move B so that the boxes are disjoint or just touch
    let mode = rng.below(3);
    if mode > 0 {
        if let (Some(x), Some(y)) = (gen::bbox(&a), gen::bbox(&b)) {
            let gap = if mode == 1 { rng.range(1, 9) } else { 0 };
            let d = match rng.below(4) {
                0 => (x.2 + gap - y.0, rng.range(-2, 2)),
                1 => (x.0 - gap - y.2, rng.range(-2, 2)),
                2 => (rng.range(-2, 2), x.3 + gap - y.1),
                _ => (rng.range(-2, 2), x.1 - gap - y.3),
            };
            b = gen::map_mp(&b, &|p| (p.0 + d.0, p.1 + d.1));
        }
    }
    s.def("A", &a, fr, BASE);
    s.def("B", &b, fr, BASE);
    let side = rng.below(4) as u32;
    let p = far_part(&a, &b, side, &mut rng);
    let mut ap = a.clone();
    ap.push(p.clone());
    let mut bp = b.clone();
    bp.push(p);
    s.def("Ap", &ap, fr, &format!("\"rel\":\"farpart\",\"of\":\"A\",\"side\":{}", side));
    s.def("Bp", &bp, fr, &format!("\"rel\":\"farpart\",\"of\":\"B\",\"side\":{}", side));
    for (op, _) in run::OPS {
        s.call(op, "A", "B", 'm', 'm', false);
        s.call(op, "Ap", "B", 'm', 'm', false);
        s.call(op, "A", "Bp", 'm', 'm', false);
    }
    s
}

/// kind "f32": the same calls in both float types
pub fn sess_f32(sid: u64, fam: &str, seed: u64, o: &Opts) -> Sess {
    let mut rng = Rng::new(seed);
    let mut s = Sess::new(sid, "f32", fam, seed);
    s.touch = fam.starts_with("big");
    let fr0 = frame_for(fam, &mut rng);
    // both float types at a random power-of-two scale (exact in f32 and f64 alike)
    // (down to 2^-100 and up to 2^90: still normal, exactly representable f32 numbers, but products of
    //  two coordinate differences leave the f32 range - nothing may be decided in f32 arithmetic there)
    let fr = if fr0 == 0 && !fam.starts_with("big") { *rng.pick(&[0i32, 0, 0, -10, -20, -30, -45, 10, 20, 40, -80, -100, 60, 90]) } else { fr0 };
    let (a, b) = loop {
        let (ca, cb) = canon_pair(fam, o.kmax, &mut rng);
        let a = gen::present(&ca, gen::RANDOMISED, &mut rng);
        let b = gen::present(&cb, gen::RANDOMISED, &mut rng);
        if !too_big(&a, &b, o.max_edges) {
            break (a, b);
        }
    };
    s.def("A", &a, fr, BASE);
    s.def("B", &b, fr, BASE);
    for (op, _) in run::OPS {
        s.call(op, "A", "B", 'm', 'm', false);
        s.call(op, "A", "B", 'm', 'm', true);
    }
    s.call("diff", "B", "A", 'm', 'm', true);
    s
}

/// kind "witness": operands with SMALL integer coordinates in general position (family
/// latraw and friends: crossing points are not representable), presented on a 2^-10 grid - the
/// recorded integer frame is 1024 x the real coordinate, results are snapped to that grid. The
/// region is judged at witness points (cell centres) by C01_Witness; `wit` = the grid step.
pub fn sess_witness(sid: u64, fam: &str, seed: u64, o: &Opts) -> Sess {
    let mut rng = Rng::new(seed);
    let mut s = Sess::new(sid, "witness", fam, seed);
    let (a, b) = loop {
        let (ca, cb) = canon_pair(fam, o.kmax, &mut rng);
        let a = gen::present(&ca, gen::RANDOMISED, &mut rng);
        let b = gen::present(&cb, gen::RANDOMISED, &mut rng);
        let small = |m: &IMp| m.iter().all(|p| p.ext.iter().chain(p.holes.iter().flatten()).all(|q| q.0.abs() <= 7 && q.1.abs() <= 7));
        if !too_big(&a, &b, o.max_edges) && small(&a) && small(&b) {
            break (a, b);
        }
    };
    let up = |m: &IMp| gen::map_mp(m, &|p| (p.0 * 1024, p.1 * 1024));
    s.def("A", &up(&a), -10, "\"rel\":\"base\",\"wit\":1024");
    s.def("B", &up(&b), -10, "\"rel\":\"base\",\"wit\":1024");
    for (op, _) in run::OPS {
        s.call(op, "A", "B", 'm', 'm', false);
        s.call(op, "A", "B", 'm', 'm', true);
    }
    s.call("diff", "B", "A", 'm', 'm', false);
    for op in ["int", "union", "xor"] {
        s.call(op, "B", "A", 'm', 'm', false);
    }
    s
}

/// kinds "pf32" / "pf64": every call of the session in ONE coordinate type. The orchestrator
/// records the same batch in two processes - one where this is the first thing the process
/// computes, one after a warm-up call in the OTHER type on another thread (`--warm`) - and merges
/// them: equal calls must give bit-identical results whatever the process computed before (C12).
pub fn sess_ptype(sid: u64, fam: &str, seed: u64, o: &Opts, f32_: bool) -> Sess {
    let mut rng = Rng::new(seed);
    let mut s = Sess::new(sid, if f32_ { "pf32" } else { "pf64" }, fam, seed);
    s.touch = fam.starts_with("big");
    let fr0 = frame_for(fam, &mut rng);
    let fr = if fr0 == 0 && !fam.starts_with("big") { *rng.pick(&[0i32, 0, -10, -20, 10, 20, -90, 70]) } else { fr0 };
    let (a, b) = loop {
        let (ca, cb) = canon_pair(fam, o.kmax, &mut rng);
        let a = gen::present(&ca, gen::RANDOMISED, &mut rng);
        let b = gen::present(&cb, gen::RANDOMISED, &mut rng);
        if !too_big(&a, &b, o.max_edges) {
            break (a, b);
        }
    };
    s.def("A", &a, fr, BASE);
    s.def("B", &b, fr, BASE);
    for (op, _) in run::OPS {
        s.call(op, "A", "B", 'm', 'm', f32_);
        s.call(op, "B", "A", 'm', 'm', f32_);
    }
    s
}

/// one library call in the given type on a fresh, joined thread (process warm-up for `--warm`)
pub fn warm_up(f32_: bool) {
    let h = std::thread::spawn(move || {
        let t1: IMp = vec![IPoly { ext: vec![(0, 0), (4, 0), (1, 3), (0, 0)], holes: vec![] }];
        let t2: IMp = vec![IPoly { ext: vec![(1, 1), (5, 2), (2, 5), (1, 1)], holes: vec![] }];
        if f32_ {
            let (a, b) = (run::to_geo::<f32>(&t1, 0), run::to_geo::<f32>(&t2, 0));
            let _ = std::panic::catch_unwind(|| geo_booleanop::boolean::BooleanOp::union(&a, &b));
        } else {
            let (a, b) = (run::to_geo::<f64>(&t1, 0), run::to_geo::<f64>(&t2, 0));
            let _ = std::panic::catch_unwind(|| geo_booleanop::boolean::BooleanOp::union(&a, &b));
        }
    });
    let _ = h.join();
}

/// kind "chain": (A op B) op' C and C op' (A op B); C independent or A or B again
pub fn sess_chain(sid: u64, fam: &str, seed: u64, o: &Opts, depth3: bool) -> Sess {
    let mut rng = Rng::new(seed);
    let mut s = Sess::new(sid, "chain", fam, seed);
    let fr = frame_for(fam, &mut rng);
    let (a, b, c) = loop {
        let t = canon_triple(fam, o.kmax, &mut rng);
        let a = gen::present(&t[0], gen::RANDOMISED, &mut rng);
        let b = gen::present(&t[1], gen::RANDOMISED, &mut rng);
        let c = gen::present(&t[2], gen::RANDOMISED, &mut rng);
        if gen::n_edges(&a) + gen::n_edges(&b) + gen::n_edges(&c) <= o.max_edges {
            break (a, b, c);
        }
    };
    s.def("A", &a, fr, BASE);
    s.def("B", &b, fr, BASE);
    s.def("C", &c, fr, BASE);
    let ops = ["int", "union", "diff", "xor"];
    // half of the sessions work on operands that are themselves OUTPUTS of the library (A u A,
    // B n B: the library's own ring form - start vertex, direction, hole order), so that a
    // fed-back result can coincide ring by ring with the operand it is combined with again
    let (na, nb) = if !fam.starts_with("aff-") && (fam == "holefill" || rng.chance(1, 2)) {
        let na = s.call(if rng.chance(1, 2) { "union" } else { "int" }, "A", "A", 'm', 'm', false);
        let nb = s.call(if rng.chance(1, 2) { "union" } else { "int" }, "B", "B", 'm', 'm', false);
        (na, nb)
    } else {
        ("A".to_string(), "B".to_string())
    };
    // a seeded subset of the 16 x 3 x 2 chains per session keeps sessions small; all pairs occur across seeds
    for op in ops {
        let r = s.call(op, &na, &nb, 'm', 'm', false);
        for op2 in ops {
            if !rng.chance(1, 2) {
                continue;
            }
            let third = *rng.pick(&["C", na.as_str(), nb.as_str()]);
            let third = if fam.starts_with("aff-") { "C" } else { third };
            let s1 = if rng.chance(1, 2) { s.call(op2, &r, third, 'm', 'm', false) } else { s.call(op2, third, &r, 'm', 'm', false) };
            if depth3 && rng.chance(1, 3) {
                let op3 = *rng.pick(&ops);
                let fourth = *rng.pick(&["C", na.as_str(), nb.as_str()]);
                let fourth = if fam.starts_with("aff-") { "C" } else { fourth };
                s.call(op3, &s1, fourth, 'm', 'm', false);
            }
        }
    }
    s
}

/// kind "pure": repeated calls after unrelated calls, and the same calls from 8 threads
pub fn sess_pure(sid: u64, fam: &str, seed: u64, o: &Opts) -> Sess {
    let mut rng = Rng::new(seed);
    let mut s = Sess::new(sid, "pure", fam, seed);
    let fr = frame_for(fam, &mut rng);
    let (a, b, c) = loop {
        let t = canon_triple(fam, o.kmax, &mut rng);
        let a = gen::present(&t[0], gen::RANDOMISED, &mut rng);
        let b = gen::present(&t[1], gen::RANDOMISED, &mut rng);
        let c = gen::present(&t[2], gen::RANDOMISED, &mut rng);
        if gen::n_edges(&a) + gen::n_edges(&b) + gen::n_edges(&c) <= o.max_edges {
            break (a, b, c);
        }
    };
    s.def("A", &a, fr, BASE);
    s.def("B", &b, fr, BASE);
    s.def("C", &c, fr, BASE);
    let mut calls = vec![];
    for (op, _) in run::OPS {
        s.call(op, "A", "B", 'm', 'm', false);
        calls.push((op.to_string(), "A".to_string(), "B".to_string()));
    }
    for (op, _) in run::OPS {
        s.call(op, "C", "A", 'm', 'm', false); // unrelated calls in between
        calls.push((op.to_string(), "C".to_string(), "A".to_string()));
    }
    // ... among them calls that PANIC inside the library (the recorded finding N1: an index panic in contour nesting on
    // ULP-sliver triangles, frame 2000; the harness catches the unwind and carries on ON THE SAME THREAD, as a caller
    // with catch_unwind would): whatever a call leaves behind when it is interrupted must not reach the next one
    let np: IMp = vec![IPoly { ext: vec![(2, 7), (3, 2), (2, 5), (2, 7)], holes: vec![] }];
    let nq: IMp = vec![IPoly { ext: vec![(3, 5), (0, 5), (3, 6), (3, 5)], holes: vec![] }];
    s.def("Np", &np, run::ULP_FRAME, BASE);
    s.def("Nq", &nq, run::ULP_FRAME, BASE);
    s.call("diff", "Np", "Nq", 'm', 'm', false);
    s.call("xor", "Np", "Nq", 'm', 'm', false);
    for (op, _) in run::OPS {
        s.call(op, "A", "B", 'm', 'm', false); // repeated
    }
    // A op A twice: once as two equal objects, once as ONE object passed as both operands
    for (op, _) in run::OPS {
        s.call(op, "A", "A", 'm', 'm', false);
        s.call(op, "A", "A", 'm', 'm', false);
    }
    // EQUAL operands that are not bit-identical: every zero coordinate handed over as -0.0 (a == a' under
    // PartialEq). "Repeated calls with equal operands return equal results" quantifies over these too.
    s.def_nz("An", &a, fr, "\"rel\":\"rewrite\",\"of\":\"A\"", (true, true));
    s.def_nz("Bn", &b, fr, "\"rel\":\"rewrite\",\"of\":\"B\"", (rng.chance(1, 2), true));
    for (op, _) in run::OPS {
        s.call(op, "An", "Bn", 'm', 'm', false);
        s.call(op, "An", "B", 'm', 'm', false);
    }
    // exactly translated copies (another binade): same relative geometry at another position
    let d = (*rng.pick(&[4096i64, 2048, 1024, -4096]), *rng.pick(&[4096i64, 2048, -2048, 512]));
    let at = gen::map_mp(&a, &|p| (p.0 + d.0, p.1 + d.1));
    let bt = gen::map_mp(&b, &|p| (p.0 + d.0, p.1 + d.1));
    s.def("At", &at, fr, &format!("\"rel\":\"translate\",\"of\":\"A\",\"d\":[{},{}]", d.0, d.1));
    s.def("Bt", &bt, fr, &format!("\"rel\":\"translate\",\"of\":\"B\",\"d\":[{},{}]", d.0, d.1));
    for (op, _) in run::OPS {
        s.call(op, "At", "Bt", 'm', 'm', false);
        calls.push((op.to_string(), "At".to_string(), "Bt".to_string()));
    }
    s.threaded_calls(&calls, 12, 6);
    for (op, _) in run::OPS {
        s.call(op, "A", "B", 'm', 'm', false); // repeated after the threads
    }
    s
}

/// kind "history": the same big call repeated on one thread after gaps of g unrelated small
/// calls, for every g around the wrap-around points of 8-bit counters (250..260, 505..515) and
/// a few other gaps. The small calls are real library calls; they are summarised as one
/// `filler` event each (how many were made and how many distinct result digests they gave).
pub fn sess_history(sid: u64, fam: &str, seed: u64, o: &Opts) -> Sess {
    let mut rng = Rng::new(seed);
    let mut s = Sess::new(sid, "history", fam, seed);
    let (a, b) = loop {
        let (ca, cb) = canon_pair(fam, o.kmax.max(4), &mut rng);
        let a = gen::present(&ca, gen::RANDOMISED, &mut rng);
        let b = gen::present(&cb, gen::RANDOMISED, &mut rng);
        if !too_big(&a, &b, o.max_edges) && gen::n_edges(&a) + gen::n_edges(&b) >= 24 {
            break (a, b);
        }
    };
    // a small overlapping pair
    let sq = |x: i64, y: i64| vec![IPoly { ext: vec![(x, y), (x + 2, y), (x + 2, y + 2), (x, y + 2), (x, y)], holes: vec![] }];
    s.def("A", &a, 0, BASE);
    s.def("B", &b, 0, BASE);
    s.def("S", &sq(0, 0), 0, BASE);
    s.def("T", &sq(1, 1), 0, BASE);
    let big_op = *rng.pick(&["union", "xor", "diff", "int"]);
    let mut gaps: Vec<u64> = (250..=260).chain(505..=515).collect();
    gaps.extend([0u64, 1, 2, 7, 31, 63, 64, 65, 127, 128, 129]);
    rng.shuffle(&mut gaps);
    let (sg, tg) = (s.vals["S"].g64.clone().unwrap(), s.vals["T"].g64.clone().unwrap());
    s.call(big_op, "A", "B", 'm', 'm', false);
    for g in gaps {
        let mut digests = std::collections::HashSet::new();
        let small_op = *rng.pick(&["union", "int", "xor", "diff"]);
        for _ in 0..g {
            let (_, r) = run::call_guarded(&sg, &tg, run::op_of(small_op), 'm', 'm', 10_000, 20);
            digests.insert(r.map(|m| run::digest(&m)).unwrap_or_default());
        }
        s.events.push(format!("{{\"ev\":\"filler\",\"n\":{},\"op\":\"{}\",\"x\":\"S\",\"y\":\"T\",\"distinct\":{}}}", g, small_op, digests.len()));
        s.call(big_op, "A", "B", 'm', 'm', false);
    }
    s
}

/// kind "deg": empty operands, empty rings, repeated vertices, unclosed rings
pub fn sess_deg(sid: u64, fam: &str, seed: u64, o: &Opts) -> Sess {
    let mut rng = Rng::new(seed);
    let mut s = Sess::new(sid, "deg", fam, seed);
    let (ca, _) = canon_pair(fam, o.kmax.min(3), &mut rng);
    let a = gen::present(&ca, gen::Present { rotate: true, reverse: true, shuffle: true, dups: true, close: false }, &mut rng);
    s.def("A", &a, 0, BASE);
    let e: IMp = match rng.below(3) {
        0 => vec![],
        1 => vec![IPoly { ext: vec![], holes: vec![] }],
        _ => vec![IPoly { ext: vec![], holes: vec![] }, IPoly { ext: vec![], holes: vec![vec![]] }],
    };
    s.def("E", &e, 0, BASE);
    // the same degenerate presentation (repeated vertices, unclosed rings) against a real operand
    let (_, cb) = canon_pair(fam, o.kmax.min(3), &mut rng);
    let b = gen::present(&cb, gen::Present { rotate: true, reverse: true, shuffle: true, dups: true, close: false }, &mut rng);
    s.def("B", &b, 0, BASE);
    for (op, _) in run::OPS {
        s.call(op, "A", "B", 'p', 'p', false);
        s.call(op, "B", "A", 'm', 'm', rng.chance(1, 3));
    }
    for (op, _) in run::OPS {
        s.call(op, "A", "E", 'p', 'p', false);
        s.call(op, "E", "A", 'p', 'p', false);
        s.call(op, "E", "E", 'm', 'm', false);
        s.call(op, "A", "E", 'm', 'm', true);
    }
    s
}

/// All ordered pairs of lattice triangles (index range of pairs), every operation.
pub fn sess_tri(sid: u64, n: i64, l: i64, ia: usize, ib: usize, tris: &[[P; 3]]) -> Sess {
    let mut s = Sess::new(sid, "single", &format!("tri{}", n + 1), (ia * tris.len() + ib) as u64);
    let ring = |t: &[P; 3]| vec![t[0], t[1], t[2], t[0]];
    s.def("A", &vec![IPoly { ext: ring(&tris[ia]), holes: vec![] }], 0, BASE);
    s.def("B", &vec![IPoly { ext: ring(&tris[ib]), holes: vec![] }], 0, BASE);
    let _ = l;
    for (op, _) in run::OPS {
        s.call(op, "A", "B", 'p', 'p', false);
    }
    s
}

/// Re-execute recorded sessions against the current library: operands and the sequence of
/// calls are taken from the record, everything the library returns is recorded afresh.
pub fn rerun(line: &str, sid: Option<u64>) -> String {
    let v: serde_json::Value = serde_json::from_str(line).expect("session json");
    let mut s = Sess::new(
        sid.unwrap_or_else(|| v["sid"].as_u64().unwrap_or(0)),
        v["kind"].as_str().unwrap_or("rerun"),
        v["family"].as_str().unwrap_or("?"),
        v["seed"].as_u64().unwrap_or(0),
    );
    let mut rename: HashMap<String, String> = HashMap::new();
    for e in v["events"].as_array().expect("events") {
        match e["ev"].as_str().unwrap_or("") {
            "def" => {
                let mp: IMp = e["mp"]
                    .as_array()
                    .unwrap()
                    .iter()
                    .map(|p| {
                        let rings: Vec<Vec<P>> = p
                            .as_array()
                            .unwrap()
                            .iter()
                            .map(|r| r.as_array().unwrap().iter().map(|q| (q[0].as_i64().unwrap(), q[1].as_i64().unwrap())).collect())
                            .collect();
                        IPoly { ext: rings.first().cloned().unwrap_or_default(), holes: rings.into_iter().skip(1).collect() }
                    })
                    .collect();
                let mut rel = String::new();
                for (k, val) in e.as_object().unwrap() {
                    if ["ev", "name", "k", "mp"].contains(&k.as_str()) {
                        continue;
                    }
                    if !rel.is_empty() {
                        rel.push(',');
                    }
                    rel.push_str(&format!("{}:{}", run::jstr(k), val));
                }
                let name = e["name"].as_str().unwrap();
                rename.insert(name.to_string(), name.to_string());
                let nz = e.get("negzero").and_then(|v| v.as_array()).map(|a| (a[0].as_bool().unwrap_or(false), a[1].as_bool().unwrap_or(false))).unwrap_or((false, false));
                s.def_nz(name, &mp, e["k"].as_i64().unwrap_or(0) as i32, &rel, nz);
            }
            "call" => {
                let g = |k: &str| e[k].as_str().unwrap().to_string();
                let x = rename[&g("x")].clone();
                let y = rename[&g("y")].clone();
                let px = g("px").chars().next().unwrap();
                let py = g("py").chars().next().unwrap();
                let thr = e["thr"].as_u64().unwrap_or(0) as usize;
                let before = s.events.len();
                let res = s.call(&g("op"), &x, &y, px, py, g("F") == "f32");
                if thr != 0 {
                    let ev = s.events[before].replacen("\"thr\":0", &format!("\"thr\":{}", thr), 1);
                    s.events[before] = ev;
                }
                rename.insert(g("res"), res);
            }
            _ => {}
        }
    }
    s.finish()
}

/// The repository's own fixtures as sessions (kind "opaque"): operands are passed with their
/// original float coordinates, which have no image in the integer domain, so only the laws that
/// need no geometry apply (C03: every call returns within the event bound; C12: operands
/// untouched, repeated calls identical). input lines: {"name":..,"A":[[[ [x,y],.. ]]],"B":..}
fn smp_json(m: &MultiPolygon<f64>) -> String {
    // coordinates as hex bit strings: TLC can compare them for equality without arithmetic
    let ring = |r: &geo_types::LineString<f64>| format!("[{}]", r.0.iter().map(|c| format!("[\"{:016x}\",\"{:016x}\"]", c.x.to_bits(), c.y.to_bits())).collect::<Vec<_>>().join(","));
    format!("[{}]", m.0.iter().map(|p| format!("[{}]", std::iter::once(p.exterior()).chain(p.interiors().iter()).map(ring).collect::<Vec<_>>().join(","))).collect::<Vec<_>>().join(","))
}

pub fn rec_fixtures(path: &str) {
    use geo_types::{Coord, LineString, Polygon};
    let text = std::fs::read_to_string(path).expect("fixtures file");
    let mut sid = 1;
    for line in text.lines().filter(|l| !l.trim().is_empty()) {
        let v: serde_json::Value = serde_json::from_str(line).expect("json");
        let mk = |x: &serde_json::Value| -> MultiPolygon<f64> {
            MultiPolygon(
                x.as_array()
                    .unwrap()
                    .iter()
                    .map(|p| {
                        let rings: Vec<LineString<f64>> = p.as_array().unwrap().iter().map(|r| LineString(r.as_array().unwrap().iter().map(|q| Coord { x: q[0].as_f64().unwrap(), y: q[1].as_f64().unwrap() }).collect())).collect();
                        let mut it = rings.into_iter();
                        let ext = it.next().unwrap_or_else(|| LineString(vec![]));
                        Polygon::new(ext, it.collect())
                    })
                    .collect(),
            )
        };
        let (a, b) = (mk(&v["A"]), mk(&v["B"]));
        // optional generator-claimed obvious results (operands that only touch): {"int":mp,"union":mp,"xor":mp,"diffAB":mp,"diffBA":mp}
        let expect = |op: &str, x: &str| -> String {
            let key = match (op, x) { ("diff", "A") => "diffAB", ("diff", _) => "diffBA", (o, _) => o };
            match v.get("expect").and_then(|e| e.get(key)) {
                Some(e) => format!("true,\"expect\":{}", smp_json(&mk(e))),
                None => "false,\"expect\":[]".to_string(),
            }
        };
        let ne = |m: &MultiPolygon<f64>| -> usize { m.0.iter().map(|p| std::iter::once(p.exterior()).chain(p.interiors().iter()).map(|r| r.0.windows(2).filter(|w| w[0] != w[1]).count()).sum::<usize>()).sum() };
        let (na, nb) = (ne(&a), ne(&b));
        let n = na + nb;
        for (x, y, gx, gy, nx, ny) in [("A", "B", &a, &b, na, nb), ("B", "A", &b, &a, nb, na)] {
            for (op, _) in run::OPS {
                // one session per (fixture, operand order, operation): the call, and the same call again
                let mut s = Sess::new(sid, "opaque", &format!("fixture/{}/{}{}/{}", v["name"].as_str().unwrap_or("?"), x, y, op), 0);
                for (name, ne_, g) in [(x, nx, gx), (y, ny, gy)] {
                    s.events.push(format!("{{\"ev\":\"def\",\"name\":\"{}\",\"k\":0,\"big\":false,\"touch\":false,\"opaque\":true,\"nedges\":{},\"digest\":\"{}\",\"mp\":[],\"rel\":\"base\"}}", name, ne_, run::digest(g)));
                }
                let exp = expect(op, x);
                for _rep in 0..2 {
                    if HUNG.load(std::sync::atomic::Ordering::SeqCst) {
                        break;
                    }
                    let budget = 8 * (n as u64) * (n as u64) + 64;
                    let (xd0, yd0) = (run::digest(gx), run::digest(gy));
                    let (o, r) = run::call_guarded(gx, gy, run::op_of(op), 'm', 'm', budget, 60);
                    if o.outcome == "timeout" {
                        HUNG.store(true, std::sync::atomic::Ordering::SeqCst);
                    }
                    let bits = r.as_ref().map(|m| run::digest(m)).unwrap_or_default();
                    let res = s.fresh();
                    s.events.push(format!(
                        "{{\"ev\":\"call\",\"res\":\"{}\",\"op\":\"{}\",\"x\":\"{}\",\"y\":\"{}\",\"px\":\"m\",\"py\":\"m\",\"F\":\"f64\",\"thr\":0,\"outcome\":\"{}\",\"msg\":{},\"popped\":{},\"mp\":[],\"bits\":\"{}\",\"xd\":[\"{}\",\"{}\"],\"yd\":[\"{}\",\"{}\"],\"smp\":{},\"hasexpect\":{}}}",
                        res, op, x, y, o.outcome, run::jstr(&o.msg), o.popped.min(1 << 30), bits, xd0, run::digest(gx), yd0, run::digest(gy),
                        r.as_ref().map(smp_json).unwrap_or_else(|| "[]".into()), exp
                    ));
                }
                println!("{}", s.finish());
                sid += 1;
                if HUNG.load(std::sync::atomic::Ordering::SeqCst) {
                    eprintln!("HUNG in fixture session {}", sid);
                    std::process::exit(4);
                }
            }
        }
    }
}
