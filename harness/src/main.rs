//! vh — the verification harness binary. It generates inputs that are valid by construction,
//! calls the real library (built from /repo's working tree with the hook cfg on) and writes down
//! what it saw as ndjson. It contains no oracle: every judgement is made by TLC on the records.
mod big;
mod fwit;
mod gen;
mod ops;
mod rng;
mod run;
mod splay;
mod stages;

use std::collections::HashMap;
use std::io::Write;

fn args_map(args: &[String]) -> HashMap<String, String> {
    let mut m = HashMap::new();
    let mut i = 0;
    while i < args.len() {
        if let Some(k) = args[i].strip_prefix("--") {
            let v = if i + 1 < args.len() && !args[i + 1].starts_with("--") {
                i += 1;
                args[i].clone()
            } else {
                "1".to_string()
            };
            m.insert(k.to_string(), v);
        }
        i += 1;
    }
    m
}
fn geti(m: &HashMap<String, String>, k: &str, d: i64) -> i64 {
    m.get(k).map(|v| v.parse().expect(k)).unwrap_or(d)
}
fn gets<'a>(m: &'a HashMap<String, String>, k: &str, d: &'a str) -> &'a str {
    m.get(k).map(|s| s.as_str()).unwrap_or(d)
}

fn rec_ops(m: &HashMap<String, String>) {
    let kind = gets(m, "kind", "single");
    let fams: Vec<&str> = gets(m, "family", "cx").split(',').collect();
    let seed = geti(m, "seed", 1) as u64;
    let count = geti(m, "count", 10) as u64;
    let sid0 = geti(m, "sid0", 1) as u64;
    let o = ops::Opts { kmax: geti(m, "kmax", 3), max_edges: geti(m, "max-edges", 120) as usize };
    let out = std::io::stdout();
    let mut out = std::io::BufWriter::new(out.lock());
    let skip = geti(m, "skip", 0) as u64;
    match gets(m, "warm", "none") {
        "f64" => ops::warm_up(false),
        "f32" => ops::warm_up(true),
        _ => {}
    }
    let (efrom, estride) = (geti(m, "enum-from", 0) as u64, geti(m, "enum-stride", 1) as u64);
    for i in skip..count {
        let fam = fams[(i as usize) % fams.len()];
        let sd = seed.wrapping_mul(1_000_003).wrapping_add(i);
        // enumerated families (en:...) read their operand pair from this position
        gen::ENUM_POS.store(efrom + (i / fams.len() as u64) * estride, std::sync::atomic::Ordering::SeqCst);
        let s = match kind {
            "single" => ops::sess_single(sid0 + i, fam, sd, &o),
            "five" => ops::sess_five(sid0 + i, fam, sd, &o),
            "repr" => ops::sess_repr(sid0 + i, fam, sd, &o, false),
            "repr32" => ops::sess_repr(sid0 + i, fam, sd, &o, true),
            "xform" => ops::sess_xform(sid0 + i, fam, sd, &o),
            "far" => ops::sess_far(sid0 + i, fam, sd, &o),
            "f32" => ops::sess_f32(sid0 + i, fam, sd, &o),
            "witness" => ops::sess_witness(sid0 + i, fam, sd, &o),
            "pf32" => ops::sess_ptype(sid0 + i, fam, sd, &o, true),
            "pf64" => ops::sess_ptype(sid0 + i, fam, sd, &o, false),
            "chain" => ops::sess_chain(sid0 + i, fam, sd, &o, false),
            "chain3" => ops::sess_chain(sid0 + i, fam, sd, &o, true),
            "pure" => ops::sess_pure(sid0 + i, fam, sd, &o),
            "deg" => ops::sess_deg(sid0 + i, fam, sd, &o),
            "history" => ops::sess_history(sid0 + i, fam, sd, &o),
            "fwit" | "fwit32" | "fchain" => fwit::sess_fwit(sid0 + i, fam, sd, &o, kind),
            _ => panic!("unknown kind {}", kind),
        };
        writeln!(out, "{}", s.finish()).unwrap();
        if ops::HUNG.load(std::sync::atomic::Ordering::SeqCst) {
            // a library call is still spinning on an abandoned thread: flush and stop; the
            // orchestrator restarts after this session (exit code 3, resume with --skip)
            out.flush().unwrap();
            eprintln!("RESUME {}", i + 1);
            std::process::exit(3);
        }
    }
}

fn rec_tri(m: &HashMap<String, String>) {
    let n = geti(m, "n", 2);
    let l = geti(m, "l", 840);
    let tris = gen::lattice_triangles(n, l);
    let total = tris.len() * tris.len();
    let from = geti(m, "from", 0) as usize;
    let to = (geti(m, "to", total as i64) as usize).min(total);
    let stride = geti(m, "stride", 1) as usize;
    let out = std::io::stdout();
    let mut out = std::io::BufWriter::new(out.lock());
    let mut sid = geti(m, "sid0", 1) as u64;
    let mut i = from;
    while i < to {
        let s = ops::sess_tri(sid, n, l, i / tris.len(), i % tris.len(), &tris);
        writeln!(out, "{}", s.finish()).unwrap();
        sid += 1;
        i += stride;
    }
}

fn main() {
    if std::env::var("VH_PANIC_MSG").is_err() { std::panic::set_hook(Box::new(|_| {})); }
    let args: Vec<String> = std::env::args().collect();
    if args.len() < 2 {
        eprintln!("usage: vh <rec-ops|rec-tri|...> [--key value]...");
        std::process::exit(2);
    }
    let m = args_map(&args[2..]);
    match args[1].as_str() {
        "rec-ops" => rec_ops(&m),
        "rec-tri" => rec_tri(&m),
        "enum-total" => println!("{}", gen::enum_total(gets(&m, "family", "").trim_start_matches("rot-"))),
        "rec-fixtures" => ops::rec_fixtures(gets(&m, "file", "")),
        "rec-stages" => {
            let fams: Vec<&str> = gets(&m, "family", "cx").split(',').collect();
            stages::rec_stages(m.contains_key("f32"), &fams, geti(&m, "count", 10) as u64, geti(&m, "seed", 1) as u64, geti(&m, "kmax", 3),
                geti(&m, "max-edges", 60) as usize, geti(&m, "matrix", 40) as usize, geti(&m, "rid0", 1) as u64,
                geti(&m, "enum-from", 0) as u64, geti(&m, "enum-stride", 1) as u64, m.contains_key("frames"))
        }
        "rec-stages-tri" => stages::rec_stages_tri(geti(&m, "n", 2), geti(&m, "l", 840), geti(&m, "from", 0) as usize, geti(&m, "stride", 1) as usize,
            geti(&m, "matrix", 40) as usize, geti(&m, "rid0", 1) as u64),
        "stage-inputs" => stages::stage_inputs(gets(&m, "file", ""), geti(&m, "rid0", 1) as u64, geti(&m, "matrix", 0) as usize, gets(&m, "family", "literal")),
        "float-pi" => stages::float_pi(geti(&m, "count", 1000) as u64, geti(&m, "seed", 1) as u64),
        "float-pi-exact" => {
            if m.contains_key("f32") {
                stages::float_pi_exact::<f32>(geti(&m, "count", 1000) as u64, geti(&m, "seed", 1) as u64)
            } else {
                stages::float_pi_exact::<f64>(geti(&m, "count", 1000) as u64, geti(&m, "seed", 1) as u64)
            }
        }
        "float-order-exact" => {
            if m.contains_key("f32") {
                stages::float_order_exact::<f32>(geti(&m, "count", 1000) as u64, geti(&m, "seed", 1) as u64)
            } else {
                stages::float_order_exact::<f64>(geti(&m, "count", 1000) as u64, geti(&m, "seed", 1) as u64)
            }
        }
        "replay-sweep" => stages::replay_sweep(gets(&m, "file", "")),
        "replay-pi" => {
            let (fr, off, ax, dc) = (geti(&m, "frame", 0) as i32, geti(&m, "offset", 0), m.contains_key("only-axis"), geti(&m, "decoy", 0) as u32);
            if m.contains_key("f32") {
                stages::replay_pi::<f32>(gets(&m, "file", ""), fr, off, ax, dc)
            } else {
                stages::replay_pi::<f64>(gets(&m, "file", ""), fr, off, ax, dc)
            }
        }
        "splay-replay" => splay::replay_graph(gets(&m, "graph", "")),
        "splay-hist" => splay::histories(geti(&m, "runs", 10) as u64, geti(&m, "len", 60) as usize, geti(&m, "keys", 6), geti(&m, "seed", 1) as u64),
        "stack" => {
            let sc = gets(&m, "scenario", "tree:asc:drop").to_string();
            let n = geti(&m, "n", 1000) as usize;
            let kb = geti(&m, "stack-kb", 8192) as usize;
            let parts: Vec<String> = sc.split(':').map(|s| s.to_string()).collect();
            let (p1, p2) = (parts[1].clone(), parts[2].clone());
            let tree = parts[0] == "tree";
            let h = std::thread::Builder::new().spawn(move || {
                big::measure(kb * 1024, move || if tree { (big::tree_scenario(n, &p1, &p2), 0, 0, 0) } else { big::bool_scenario(n, &p1, &p2) })
            });
            match h.expect("spawn").join() {
                Ok((hwm, (a, b, c, d))) => println!(
                    "{{\"ev\":\"stack\",\"scenario\":\"{}\",\"n\":{},\"stack_kb\":{},\"hwm\":{},\"exit\":\"ok\",\"size\":{},\"popped\":{},\"polys\":{},\"area2\":{}}}",
                    sc, n, kb, hwm, a, b, c, d
                ),
                Err(_) => println!(
                    "{{\"ev\":\"stack\",\"scenario\":\"{}\",\"n\":{},\"stack_kb\":{},\"hwm\":0,\"exit\":\"panic\",\"size\":0,\"popped\":0,\"polys\":0,\"area2\":0}}",
                    sc, n, kb
                ),
            }
        }
        "rerun" => {
            let text = std::fs::read_to_string(gets(&m, "file", "")).expect("read file");
            let mut sid = geti(&m, "sid0", 1) as u64;
            for line in text.lines().filter(|l| !l.trim().is_empty()) {
                println!("{}", ops::rerun(line, Some(sid)));
                sid += 1;
            }
        }
        c => {
            eprintln!("unknown command {}", c);
            std::process::exit(2);
        }
    }
}
