//! Small deterministic PRNG (SplitMix64) so that every random choice derives from VERIF_SEED
//! and the harness has no dependency on a particular `rand` version.
#[derive(Clone)]
pub struct Rng(pub u64);

impl Rng {
    pub fn new(seed: u64) -> Rng {
        Rng(seed.wrapping_mul(0x9E37_79B9_7F4A_7C15).wrapping_add(0x1234_5678_9ABC_DEF1))
    }
    pub fn next_u64(&mut self) -> u64 {
        self.0 = self.0.wrapping_add(0x9E37_79B9_7F4A_7C15);
        let mut z = self.0;
        z = (z ^ (z >> 30)).wrapping_mul(0xBF58_476D_1CE4_E5B9);
        z = (z ^ (z >> 27)).wrapping_mul(0x94D0_49BB_1331_11EB);
        z ^ (z >> 31)
    }
    /// uniform in 0..n (n > 0)
    pub fn below(&mut self, n: u64) -> u64 {
        self.next_u64() % n
    }
    pub fn range(&mut self, lo: i64, hi_incl: i64) -> i64 {
        lo + self.below((hi_incl - lo + 1) as u64) as i64
    }
    pub fn chance(&mut self, num: u64, den: u64) -> bool {
        self.below(den) < num
    }
    pub fn pick<'a, T>(&mut self, v: &'a [T]) -> &'a T {
        &v[self.below(v.len() as u64) as usize]
    }
    pub fn shuffle<T>(&mut self, v: &mut [T]) {
        for i in (1..v.len()).rev() {
            let j = self.below(i as u64 + 1) as usize;
            v.swap(i, j);
        }
    }
    pub fn fork(&mut self) -> Rng {
        Rng::new(self.next_u64())
    }
}
