//! Sessions on FLOAT operands without an image in the integer domain (kind "fwit"): lattice
//! operands (valid by construction, all contacts vertex-to-vertex or along identical edges, or proper
//! crossings at cell centres) are pushed through a random affine map with irrational entries and
//! rounded to f64 / f32. The library sees those floats; the record carries them as bit patterns
//! (`smp`), together with candidate WITNESS POINTS (images of points strictly inside the triangles
//! of the lattice). The harness does not know or say which witness is inside what: membership,
//! admissibility and every law are decided exactly by TLC (spec/FloatGeometry.tla + BoolOps.tla).
use crate::gen::{self, P};
use crate::ops::{self, Opts, Sess, HUNG};
use crate::rng::Rng;
use crate::run::{self, Fl};
use geo_types::{Coord, LineString, MultiPolygon, Polygon};

type Canon = Vec<(Vec<P>, Vec<Vec<P>>)>;

/// x' = a x + b y + tx, y' = c x + d y + ty, evaluated in f64 on exact small integers / fractions
#[derive(Clone, Copy)]
pub struct Aff {
    a: f64,
    b: f64,
    c: f64,
    d: f64,
    tx: f64,
    ty: f64,
}

impl Aff {
    fn at(&self, x: f64, y: f64) -> (f64, f64) {
        (self.a * x + self.b * y + self.tx, self.c * x + self.d * y + self.ty)
    }
    fn det(&self) -> f64 {
        self.a * self.d - self.b * self.c
    }
}

fn unit(rng: &mut Rng) -> f64 {
    // uniform in (-1, 1) with a full 53-bit mantissa
    let u = (rng.next_u64() >> 11) as f64 / (1u64 << 53) as f64;
    2.0 * u - 1.0
}

pub fn random_aff(rng: &mut Rng, small_scales: bool) -> Aff {
    // one session in four is placed FAR FROM THE ORIGIN: a rigid motion plus uniform scale whose translation is 2^20..2^26
    // (f32: 2^8..2^11) times the size of a lattice cell - coordinates whose products are inexact although
    // the features are large against the unit in the last place (the margin of admissible witnesses, 2^-29 / 2^-15 of
    // the coordinate magnitude, is then a quarter / an eighth of a cell)
    if rng.chance(1, 4) {
        let e = if small_scales { rng.range(-30, 30) } else { rng.range(-80, 80) };
        let s = 2f64.powi(e as i32) * (1.0 + 0.5 * unit(rng).abs());
        let th = unit(rng) * std::f64::consts::PI;
        let k = if small_scales { rng.range(8, 12) } else { rng.range(20, 26) };
        let t = 2f64.powi(k as i32) * s;
        return Aff { a: s * th.cos(), b: -s * th.sin(), c: s * th.sin(), d: s * th.cos(), tx: t * (0.5 + 0.5 * unit(rng).abs()) * if rng.chance(1, 2) { 1.0 } else { -1.0 }, ty: t * unit(rng) };
    }
    loop {
        let e = if small_scales { rng.range(-30, 30) } else { rng.range(-80, 80) };
        let s = 2f64.powi(e as i32) * (1.0 + 0.5 * unit(rng).abs());
        let (a, b, c, d) = match rng.below(3) {
            0 => {
                // rotation by an arbitrary angle
                let th = unit(rng) * std::f64::consts::PI;
                (th.cos(), -th.sin(), th.sin(), th.cos())
            }
            1 => {
                // rotation followed by an anisotropic stretch
                let th = unit(rng) * std::f64::consts::PI;
                let (k1, k2) = (0.5 + unit(rng).abs(), 0.5 + unit(rng).abs());
                (k1 * th.cos(), -k2 * th.sin(), k1 * th.sin(), k2 * th.cos())
            }
            _ => (unit(rng), unit(rng), unit(rng), unit(rng)),
        };
        // one placement in three keeps the ORIGIN inside or right next to the data (translations of a few cells): coordinates
        // of both signs, end points much closer to an axis than their neighbours (x + (y - x) != y there), zeros nearby
        let span = if rng.chance(1, 3) { 5.0 } else if small_scales { 8.0 } else { 64.0 };
        let m = Aff { a: a * s, b: b * s, c: c * s, d: d * s, tx: unit(rng) * s * span, ty: unit(rng) * s * span };
        let n = (a * a + b * b + c * c + d * d).max(1e-300);
        if (a * d - b * c).abs() / n > 0.15 {
            return m;
        }
    }
}

fn to_mp<F: Fl>(polys: &Canon, m: &Aff, rng: &mut Rng, randomise: bool) -> MultiPolygon<F> {
    let flip = m.det() < 0.0;
    let ring = |r: &Vec<P>, rng: &mut Rng| -> LineString<F> {
        let mut v: Vec<P> = r.clone();
        if flip {
            v.reverse();
        }
        if randomise && !v.is_empty() {
            let k = rng.below(v.len() as u64) as usize;
            v.rotate_left(k);
            if rng.chance(1, 3) {
                v.reverse();
            }
        }
        let mut cs: Vec<Coord<F>> = v
            .iter()
            .map(|p| {
                let (x, y) = m.at(p.0 as f64, p.1 as f64);
                Coord { x: F::from_f64(x), y: F::from_f64(y) }
            })
            .collect();
        if let Some(f) = cs.first().cloned() {
            cs.push(f);
        }
        LineString(cs)
    };
    let mut ps: Vec<Polygon<F>> = polys
        .iter()
        .map(|(e, hs)| {
            let ext = ring(e, rng);
            let holes: Vec<LineString<F>> = hs.iter().map(|h| ring(h, rng)).collect();
            Polygon::new(ext, holes)
        })
        .collect();
    if randomise {
        rng.shuffle(&mut ps);
    }
    MultiPolygon(ps)
}

fn smp_json<F: Fl>(m: &MultiPolygon<F>) -> String {
    let ring = |r: &LineString<F>| {
        format!("[{}]", r.0.iter().map(|c| format!("[\"{:016x}\",\"{:016x}\"]", c.x.to_f64().to_bits(), c.y.to_f64().to_bits())).collect::<Vec<_>>().join(","))
    };
    format!("[{}]", m.0.iter().map(|p| format!("[{}]", std::iter::once(p.exterior()).chain(p.interiors().iter()).map(ring).collect::<Vec<_>>().join(","))).collect::<Vec<_>>().join(","))
}

fn n_edges<F: Fl>(m: &MultiPolygon<F>) -> usize {
    m.0.iter().map(|p| std::iter::once(p.exterior()).chain(p.interiors().iter()).map(|r| r.0.windows(2).filter(|w| w[0] != w[1]).count()).sum::<usize>()).sum()
}

fn max_abs<F: Fl>(m: &MultiPolygon<F>) -> f64 {
    let mut r: f64 = 0.0;
    for p in &m.0 {
        for l in std::iter::once(p.exterior()).chain(p.interiors().iter()) {
            for c in &l.0 {
                r = r.max(c.x.to_f64().abs()).max(c.y.to_f64().abs());
            }
        }
    }
    r
}

/// lattice description of a family: (canonical A, canonical B, optional C, kx, ky, cell, origin, crossings)
struct Lat {
    a: Canon,
    b: Canon,
    c: Canon,
    kx: i64,
    ky: i64,
    cell: i64,
    origin: P,
    crossing: bool, // proper crossings at cell centres (results contain computed points)
}

/// base families: cx | rect | cxabut | cxsub | cxmix | en:...:k  (collinear vertices are always KEPT:
/// every contact between parts and between operands is vertex-to-vertex or along identical edges)
fn lattice_pair(base: &str, kmax: i64, rng: &mut Rng) -> Lat {
    if let Some(f) = gen::enum_parse(base) {
        assert!(!f.simp && f.shift == (0, 0), "float families need enumerated families with kept vertices and no shift");
        assert!((f.mode_a == 2) == (f.mode_b == 2), "mode 2 (centre vertices) only against itself");
        let (a, b) = gen::enum_pair(base);
        return Lat { c: a.clone(), a, b, kx: f.kx, ky: f.ky, cell: 4, origin: (0, 0), crossing: f.mode_a != f.mode_b };
    }
    loop {
        let mut f = gen::family(base, kmax, rng);
        f.simp = false;
        if (f.mode_a == 2) != (f.mode_b == 2) {
            continue; // a centre vertex of one operand on a diagonal of the other: a T-touch, excluded
        }
        let (a, b) = if base.ends_with("cxabut") || base.ends_with("cxsub") { gen::related_pair(&f, rng) } else { (gen::operand(&f, false, rng), gen::operand(&f, true, rng)) };
        if a.is_empty() && b.is_empty() {
            continue;
        }
        let c = gen::operand(&f, false, rng);
        let (a, b) = if rng.chance(1, 2) { (a, b) } else { (b, a) };
        return Lat { a, b, c, kx: f.kx, ky: f.ky, cell: f.cell, origin: f.origin, crossing: f.mode_a != f.mode_b };
    }
}

/// candidate witnesses: four points per lattice cell, each strictly inside one of the four
/// triangles cut out by both diagonals (so never on an edge of any triangulation mode), plus a
/// margin of cells around the lattice
fn witnesses(l: &Lat, m: &Aff, rng: &mut Rng, cap: usize) -> Vec<(f64, f64)> {
    let mut w = vec![];
    let mut cells: Vec<(i64, i64, bool)> = vec![];
    for x in -1..=l.kx {
        for y in -1..=l.ky {
            cells.push((x, y, x < 0 || y < 0 || x == l.kx || y == l.ky));
        }
    }
    cells.sort_by_key(|c| c.2);
    for (x, y, margin) in cells {
        {
            if margin && !rng.chance(1, 3) {
                continue;
            }
            let (x0, y0, c) = ((l.origin.0 + l.cell * x) as f64, (l.origin.1 + l.cell * y) as f64, l.cell as f64);
            // the incentres of the four triangles cut by both diagonals: 0.207 cells away from all three sides
            for (fa, fb) in [(0.5, 0.2071), (0.7929, 0.5), (0.5, 0.7929), (0.2071, 0.5)] {
                w.push(m.at(x0 + c * fa, y0 + c * fb));
            }
        }
    }
    // all lattice cells first (every triangle of every triangulation mode contains a witness), then
    // the sampled margin; never more than `cap`
    w.truncate(cap);
    w
}

struct FVal<F: Fl> {
    g: MultiPolygon<F>,
    ne: usize,
}

struct FSess<F: Fl> {
    s: Sess,
    vals: std::collections::HashMap<String, FVal<F>>,
    wits: String,
    mexp: i32,
    n: u32,
}

impl<F: Fl> FSess<F> {
    fn def(&mut self, name: &str, g: MultiPolygon<F>) {
        let ne = n_edges(&g);
        self.s.events.push(format!(
            "{{\"ev\":\"def\",\"name\":\"{}\",\"k\":0,\"big\":false,\"touch\":false,\"opaque\":true,\"nedges\":{},\"digest\":\"{}\",\"mp\":[],\"rel\":\"base\",\"fw\":true,\"smp\":{}}}",
            name,
            ne,
            run::digest(&g),
            smp_json(&g)
        ));
        self.vals.insert(name.to_string(), FVal { g, ne });
    }

    fn call(&mut self, op: &str, x: &str, y: &str, px: char, py: char) -> String {
        self.n += 1;
        let res = format!("R{}", self.n);
        if HUNG.load(std::sync::atomic::Ordering::SeqCst) {
            return x.to_string();
        }
        let (gx, gy) = (self.vals[x].g.clone(), self.vals[y].g.clone());
        let n = (self.vals[x].ne + self.vals[y].ne) as u64;
        let px = if gx.0.len() == 1 { px } else { 'm' };
        let py = if gy.0.len() == 1 { py } else { 'm' };
        let (xd0, yd0) = (run::digest(&gx), run::digest(&gy));
        let (o, r, xd1, yd1) = run::call_guarded_alias(&gx, &gy, false, run::op_of(op), px, py, 8 * n * n + 64, 20);
        if o.outcome == "timeout" {
            HUNG.store(true, std::sync::atomic::Ordering::SeqCst);
        }
        let bits = r.as_ref().map(|m| run::digest(m)).unwrap_or_default();
        let nres = r.as_ref().map(n_edges).unwrap_or(0);
        self.s.events.push(format!(
            "{{\"ev\":\"call\",\"res\":\"{}\",\"op\":\"{}\",\"x\":\"{}\",\"y\":\"{}\",\"px\":\"{}\",\"py\":\"{}\",\"F\":\"{}\",\"thr\":0,\"outcome\":\"{}\",\"msg\":{},\"popped\":{},\"mp\":[],\"bits\":\"{}\",\"xd\":[\"{}\",\"{}\"],\"yd\":[\"{}\",\"{}\"],\"smp\":{},\"hasexpect\":false,\"expect\":[],\"nres\":{},\"mexp\":{},\"wits\":{}}}",
            res, op, x, y, px, py, F::NAME, o.outcome, run::jstr(&o.msg), o.popped.min(1 << 30), bits, xd0, xd1, yd0, yd1,
            r.as_ref().map(smp_json).unwrap_or_else(|| "[]".into()), nres, self.mexp, self.wits
        ));
        if let Some(g) = r {
            self.vals.insert(res.clone(), FVal { g, ne: nres });
        }
        res
    }
}

/// family "fstar": two star-shaped polygons in GENERAL POSITION - vertices at random angles and radii
/// around two nearby centres, each optionally with a star-shaped hole well inside: no contact of any
/// kind is exact, every meeting point is a proper crossing at an irrational place. Witness candidates are
/// random points of the common box. (Run as a FIXED batch: its seed does not depend on VERIF_SEED.)
fn star<F: Fl>(rng: &mut Rng, cx: f64, cy: f64, rmin: f64, rmax: f64, n: usize, cw: bool) -> LineString<F> {
    let mut angles: Vec<f64> = (0..n).map(|i| (i as f64 + 0.15 + 0.7 * unit(rng).abs()) / n as f64 * std::f64::consts::TAU).collect();
    if cw {
        angles.reverse();
    }
    let mut cs: Vec<Coord<F>> = angles
        .iter()
        .map(|a| {
            let r = rmin + (rmax - rmin) * unit(rng).abs();
            Coord { x: F::from_f64(cx + r * a.cos()), y: F::from_f64(cy + r * a.sin()) }
        })
        .collect();
    let f = cs[0];
    cs.push(f);
    LineString(cs)
}

fn star_session<F: Fl>(sid: u64, fam: &str, seed: u64, kind: &str) -> Sess {
    let mut rng = Rng::new(seed);
    let e = if F::NAME == "f32" { rng.range(-6, 6) } else { rng.range(-30, 30) };
    let s = 2f64.powi(e as i32) * (1.0 + 0.5 * unit(&mut rng).abs());
    let (ox, oy) = (unit(&mut rng) * 8.0 * s, unit(&mut rng) * 8.0 * s);
    let mut mk = |rng: &mut Rng, cx: f64, cy: f64| -> MultiPolygon<F> {
        let n = rng.range(4, 11) as usize;
        let ext = star::<F>(rng, cx, cy, 2.0 * s, 4.0 * s, n, false);
        let nh = rng.range(3, 6) as usize;
        let holes = if rng.chance(1, 3) { vec![star::<F>(rng, cx, cy, 0.5 * s, 1.4 * s, nh, true)] } else { vec![] };
        MultiPolygon(vec![Polygon::new(ext, holes)])
    };
    let a = mk(&mut rng, ox, oy);
    let d = (unit(&mut rng) * 4.0 * s, unit(&mut rng) * 4.0 * s);
    let b = mk(&mut rng, ox + d.0, oy + d.1);
    let mx = max_abs(&a).max(max_abs(&b)).max(f64::MIN_POSITIVE);
    let mexp = mx.log2().floor() as i32 + 1;
    let ws: Vec<(f64, f64)> = (0..40).map(|_| (ox + d.0 / 2.0 + unit(&mut rng) * 6.5 * s, oy + d.1 / 2.0 + unit(&mut rng) * 6.5 * s)).collect();
    let wits = format!("[{}]", ws.iter().map(|(x, y)| format!("[\"{:016x}\",\"{:016x}\"]", x.to_bits(), y.to_bits())).collect::<Vec<_>>().join(","));
    let mut fs = FSess::<F> { s: Sess::new(sid, kind, fam, seed), vals: Default::default(), wits, mexp, n: 0 };
    fs.def("A", a);
    fs.def("B", b);
    for (op, _) in run::OPS {
        let (px, py) = (*rng.pick(&['p', 'm']), *rng.pick(&['p', 'm']));
        fs.call(op, "A", "B", px, py);
    }
    let op = *rng.pick(&["int", "union", "xor", "diff"]);
    fs.call(op, "B", "A", 'm', 'm');
    fs.s
}

/// family "fneedle": two long thin rectangles (length 2^7..2^13, width about 1) in an arbitrary
/// direction, the second turned against the first by a tiny angle about (almost) the common centre so
/// that they form a flat X: the four long edges cross pairwise at SHALLOW angles (down to 1e-4 rad) in
/// general position - the badly conditioned crossings. The ends separate by 2..6 widths, so no vertex
/// of one is near an edge of the other. Witness candidates lie along the common axis. (A FIXED batch.)
fn needle_session<F: Fl>(sid: u64, fam: &str, seed: u64, kind: &str) -> Sess {
    let mut rng = Rng::new(seed);
    let e = rng.range(7, 13);
    let len = 2f64.powi(e as i32) * (1.0 + 0.9 * unit(&mut rng).abs());
    let th = unit(&mut rng) * std::f64::consts::PI;
    let spread = 2.0 + 4.0 * unit(&mut rng).abs(); // how far the ends separate, in widths
    let dl = spread / (len / 2.0) * if rng.chance(1, 2) { 1.0 } else { -1.0 };
    let sc = 2f64.powi(rng.range(-3, 3) as i32) * (1.0 + 0.5 * unit(&mut rng).abs());
    let (ox, oy) = (unit(&mut rng) * 40.0 * sc, unit(&mut rng) * 40.0 * sc);
    let rect = |rng: &mut Rng, ang: f64, cx: f64, cy: f64, w: f64| -> MultiPolygon<F> {
        let (c, s) = (ang.cos(), ang.sin());
        let h = len / 2.0;
        let mut cs: Vec<Coord<F>> = [(-h, -w), (h, -w), (h, w), (-h, w)]
            .iter()
            .map(|(x, y)| Coord { x: F::from_f64(sc * (cx + c * x - s * y) + ox), y: F::from_f64(sc * (cy + s * x + c * y) + oy) })
            .collect();
        let k = rng.below(4) as usize;
        cs.rotate_left(k);
        let f = cs[0];
        cs.push(f);
        MultiPolygon(vec![Polygon::new(LineString(cs), vec![])])
    };
    let wa = 0.4 + 0.3 * unit(&mut rng).abs();
    let wb = 0.4 + 0.3 * unit(&mut rng).abs();
    let a = rect(&mut rng, th, 0.0, 0.0, wa);
    let (dx, dy) = (unit(&mut rng) * 0.1, unit(&mut rng) * 0.1);
    let b = rect(&mut rng, th + dl, dx, dy, wb);
    let mx = max_abs(&a).max(max_abs(&b)).max(f64::MIN_POSITIVE);
    let mexp = mx.log2().floor() as i32 + 1;
    let (c, s) = (th.cos(), th.sin());
    let ws: Vec<(f64, f64)> = (0..48)
        .map(|_| {
            let (t, u) = (unit(&mut rng) * len * 0.55, unit(&mut rng) * (spread + 1.5));
            (sc * (c * t - s * u) + ox, sc * (s * t + c * u) + oy)
        })
        .collect();
    let wits = format!("[{}]", ws.iter().map(|(x, y)| format!("[\"{:016x}\",\"{:016x}\"]", x.to_bits(), y.to_bits())).collect::<Vec<_>>().join(","));
    let mut fs = FSess::<F> { s: Sess::new(sid, kind, fam, seed), vals: Default::default(), wits, mexp, n: 0 };
    fs.def("A", a);
    fs.def("B", b);
    for (op, _) in run::OPS {
        let (px, py) = (*rng.pick(&['p', 'm']), *rng.pick(&['p', 'm']));
        fs.call(op, "A", "B", px, py);
    }
    let op = *rng.pick(&["int", "union", "xor", "diff"]);
    fs.call(op, "B", "A", 'm', 'm');
    fs.s
}

fn session<F: Fl>(sid: u64, fam: &str, seed: u64, o: &Opts, shape: &str, kind: &str) -> Sess {
    if fam == "fstar" {
        return star_session::<F>(sid, fam, seed, kind);
    }
    if fam == "fneedle" {
        return needle_session::<F>(sid, fam, seed, kind);
    }
    let mut rng = Rng::new(seed);
    let base = fam.strip_prefix("rot-").expect("float families are named rot-<lattice family>");
    let l = loop {
        let l = lattice_pair(base, o.kmax, &mut rng);
        let ne = |c: &Canon| c.iter().map(|(e, hs)| e.len() + hs.iter().map(|h| h.len()).sum::<usize>()).sum::<usize>();
        if ne(&l.a) + ne(&l.b) <= o.max_edges {
            break l;
        }
    };
    let m = random_aff(&mut rng, F::NAME == "f32");
    let a = to_mp::<F>(&l.a, &m, &mut rng, true);
    let b = to_mp::<F>(&l.b, &m, &mut rng, true);
    let c = to_mp::<F>(&l.c, &m, &mut rng, true);
    // a FAR PART (one session in three): A plus a rectangle 40..90 cells to the side (in lattice coordinates, pushed through the
    // same map), as a base operand of its own: the laws judge op(Af, B) against the even-odd reading of Af and B at the same
    // witnesses, so the answer near A and B must not depend on the part - nor on the early exits it switches on or off (it
    // moves the operand's bounding box)
    let mut far: Option<MultiPolygon<F>> = if shape != "chain" && rng.chance(1, 3) {
        let side = rng.below(4);
        let d = rng.range(40, 90) * l.cell;
        let (fx, fy) = match side {
            0 => (l.origin.0 - d, l.origin.1 + rng.range(-2, 2) * l.cell),
            1 => (l.origin.0 + l.kx * l.cell + d, l.origin.1 + rng.range(-2, 2) * l.cell),
            2 => (l.origin.0 + rng.range(-2, 2) * l.cell, l.origin.1 + l.ky * l.cell + d),
            _ => (l.origin.0 + rng.range(-2, 2) * l.cell, l.origin.1 - d),
        };
        let (fw, fh) = (rng.range(1, 3) * l.cell, rng.range(1, 2 + l.ky) * l.cell);
        let mut af = l.a.clone();
        af.push((vec![(fx, fy), (fx + fw, fy), (fx + fw, fy + fh), (fx, fy + fh)], vec![]));
        Some(to_mp::<F>(&af, &m, &mut rng, false))
    } else {
        None
    };
    let mx = max_abs(&a).max(max_abs(&b)).max(max_abs(&c)).max(far.as_ref().map(|g| max_abs(g)).unwrap_or(0.0)).max(f64::MIN_POSITIVE);
    let mexp = mx.log2().floor() as i32 + 1;
    let ws = witnesses(&l, &m, &mut rng, 4 * (l.kx * l.ky) as usize + 24);
    let wits = format!("[{}]", ws.iter().map(|(x, y)| format!("[\"{:016x}\",\"{:016x}\"]", x.to_bits(), y.to_bits())).collect::<Vec<_>>().join(","));
    let mut fs = FSess::<F> { s: Sess::new(sid, kind, fam, seed), vals: Default::default(), wits, mexp, n: 0 };
    fs.def("A", a);
    fs.def("B", b);
    let chain_ok = !l.crossing; // results of crossing families contain computed points: feeding them back meets the other operand's edges within an ulp (excluded like every T-touch)
    match shape {
        "chain" if chain_ok => {
            fs.def("C", c);
            let ops = ["int", "union", "diff", "xor"];
            let o1 = *rng.pick(&ops);
            let r1 = fs.call(o1, "A", "B", 'p', 'p');
            for o2 in ops {
                let third = *rng.pick(&["A", "B", "C", "C"]);
                if rng.chance(1, 2) {
                    fs.call(o2, &r1, third, 'p', 'p');
                } else {
                    fs.call(o2, third, &r1, 'p', 'p');
                }
            }
        }
        _ => {
            for (op, _) in run::OPS {
                let (px, py) = (*rng.pick(&['p', 'm']), *rng.pick(&['p', 'm']));
                fs.call(op, "A", "B", px, py);
            }
            if rng.chance(1, 2) {
                fs.call("diff", "B", "A", 'm', 'm');
            } else {
                let op = *rng.pick(&["int", "union", "xor"]);
                fs.call(op, "B", "A", 'm', 'm');
            }
            if let Some(gaf) = far.take() {
                fs.def("Af", gaf);
                let which = *rng.pick(&["diff", "int", "union", "xor", "diff"]);
                fs.call(which, "Af", "B", 'm', 'm');
                fs.call(which, "B", "Af", 'm', 'm');
            }
            // self-operations: every edge is shared bit for bit by subject and clipping
            if rng.chance(1, 2) {
                let who = *rng.pick(&["A", "B"]);
                for (op, _) in run::OPS {
                    fs.call(op, who, who, 'm', 'm');
                }
            }
        }
    }
    fs.s
}

/// kinds: fwit (f64) | fwit32 | fchain (f64, chained calls on families without computed points)
pub fn sess_fwit(sid: u64, fam: &str, seed: u64, o: &Opts, kind: &str) -> Sess {
    let _ = ops::BASE;
    match kind {
        "fwit32" => session::<f32>(sid, fam, seed, o, "single", kind),
        "fchain" => session::<f64>(sid, fam, seed, o, "chain", kind),
        _ => session::<f64>(sid, fam, seed, o, "single", kind),
    }
}
