//! Input generators. Every operand is VALID BY CONSTRUCTION (simple rings, holes inside their
//! exterior, parts interior-disjoint, touching only in points): operands are unions of triangles
//! of a triangulated lattice, their boundary is traced into simple rings. No validity test, no
//! oracle: the harness never judges a result.
use crate::rng::Rng;
use std::collections::HashMap;

pub type P = (i64, i64);
pub type IRing = Vec<P>; // as handed to LineString (closing vertex included when present)
#[derive(Clone, Debug, PartialEq)]
pub struct IPoly {
    pub ext: IRing,
    pub holes: Vec<IRing>,
}
pub type IMp = Vec<IPoly>;
pub type Tri = [P; 3];

fn cross(a: P, b: P) -> i64 {
    a.0 * b.1 - a.1 * b.0
}
fn dot(a: P, b: P) -> i64 {
    a.0 * b.0 + a.1 * b.1
}
fn sub(a: P, b: P) -> P {
    (a.0 - b.0, a.1 - b.1)
}
pub fn area2(r: &[P]) -> i64 {
    let n = r.len();
    (0..n).map(|i| cross(r[i], r[(i + 1) % n])).sum()
}

/// Triangulated k×k lattice with cells of side `cell` (even). mode 0: "/" diagonal, 1: "\",
/// 2: both diagonals (4 triangles, integral centre), 3: alternating, 4: none (axis-parallel;
/// the two triangles of a cell are always selected together, see `select`).
pub fn complex(kx: i64, ky: i64, mode: u32, cell: i64, off: P) -> Vec<Tri> {
    let mut t = vec![];
    let h = cell / 2;
    for x in 0..kx {
        for y in 0..ky {
            let (x0, y0) = (off.0 + cell * x, off.1 + cell * y);
            let (a, b, c, d, m) = (
                (x0, y0),
                (x0 + cell, y0),
                (x0 + cell, y0 + cell),
                (x0, y0 + cell),
                (x0 + h, y0 + h),
            );
            match mode {
                0 | 4 => {
                    t.push([a, b, c]);
                    t.push([a, c, d]);
                }
                1 => {
                    t.push([a, b, d]);
                    t.push([b, c, d]);
                }
                2 => {
                    t.push([a, b, m]);
                    t.push([b, c, m]);
                    t.push([c, d, m]);
                    t.push([d, a, m]);
                }
                _ => {
                    if (x + y) % 2 == 0 {
                        t.push([a, b, c]);
                        t.push([a, c, d]);
                    } else {
                        t.push([a, b, d]);
                        t.push([b, c, d]);
                    }
                }
            }
        }
    }
    t
}

/// Random subset of the triangles; in mode 4 whole cells are selected.
pub fn select(n_tris: usize, mode: u32, dens_pct: u64, rng: &mut Rng) -> Vec<bool> {
    if mode == 4 {
        let mut v = vec![];
        for _ in 0..n_tris / 2 {
            let s = rng.chance(dens_pct, 100);
            v.push(s);
            v.push(s);
        }
        v
    } else {
        (0..n_tris).map(|_| rng.chance(dens_pct, 100)).collect()
    }
}

/// Boundary of the union of the selected triangles as simple rings (unclosed vertex lists):
/// counter-clockwise rings are exteriors, clockwise rings are holes.
pub fn rings(tris: &[Tri], sel: &[bool]) -> Vec<Vec<P>> {
    let mut cnt: HashMap<(P, P), i32> = HashMap::new();
    for (i, t) in tris.iter().enumerate() {
        if !sel[i] {
            continue;
        }
        debug_assert!(area2(t) > 0);
        for j in 0..3 {
            let (a, b) = (t[j], t[(j + 1) % 3]);
            if let Some(c) = cnt.get_mut(&(b, a)) {
                *c -= 1;
                if *c == 0 {
                    cnt.remove(&(b, a));
                }
            } else {
                *cnt.entry((a, b)).or_default() += 1;
            }
        }
    }
    let mut out: HashMap<P, Vec<P>> = HashMap::new();
    for ((a, b), c) in &cnt {
        assert!(*c == 1);
        out.entry(*a).or_default().push(*b);
    }
    for v in out.values_mut() {
        v.sort();
    }
    let ang = |d: P, o: P| -> f64 { (cross(d, o) as f64).atan2(dot(d, o) as f64) };
    let mut res = vec![];
    loop {
        let start = match out.iter().filter(|(_, v)| !v.is_empty()).map(|(k, _)| *k).min() {
            Some(s) => s,
            None => break,
        };
        // walk a closed trail taking the leftmost turn; cut off a simple ring whenever a vertex repeats
        let mut path = vec![start];
        let first = out.get_mut(&start).unwrap().remove(0);
        let mut prev = start;
        let mut cur = first;
        loop {
            if let Some(pos) = path.iter().position(|p| *p == cur) {
                res.push(path[pos..].to_vec());
                path.truncate(pos + 1);
                if pos == 0 && out[&cur].is_empty() {
                    break;
                }
            } else {
                path.push(cur);
            }
            let v = out.get_mut(&cur).unwrap();
            if v.is_empty() {
                assert!(path.len() == 1);
                break;
            }
            let d = sub(cur, prev);
            let mut bi = 0;
            let mut ba = -10.0;
            for (i, o) in v.iter().enumerate() {
                let a = ang(d, sub(*o, cur));
                if a > ba {
                    ba = a;
                    bi = i;
                }
            }
            let nxt = v.remove(bi);
            prev = cur;
            cur = nxt;
        }
    }
    res
}

/// Drop vertices that are collinear with their neighbours (creates vertex-on-edge touches).
pub fn simplify(r: &[P]) -> Vec<P> {
    let n = r.len();
    (0..n)
        .filter(|&i| cross(sub(r[i], r[(i + n - 1) % n]), sub(r[(i + 1) % n], r[i])) != 0)
        .map(|i| r[i])
        .collect()
}

/// exact even-odd test of a doubled point (px2, py2) against a ring (half-open rule)
fn inside2(ring: &[P], px2: i64, py2: i64) -> bool {
    let n = ring.len();
    let mut c = false;
    for i in 0..n {
        let (a, b) = (ring[i], ring[(i + 1) % n]);
        let (ay, by) = (2 * a.1, 2 * b.1);
        if (ay > py2) != (by > py2) {
            // x of the crossing > px  <=>  sign test without division
            let (ax, bx) = (2 * a.0, 2 * b.0);
            // x_cross = ax + (py2-ay)*(bx-ax)/(by-ay)
            let lhs = (py2 - ay) * (bx - ax) - (px2 - ax) * (by - ay);
            if (by - ay > 0 && lhs > 0) || (by - ay < 0 && lhs < 0) {
                c = !c;
            }
        }
    }
    c
}

/// Group simple rings into polygons: positive rings are exteriors, each negative ring is a hole
/// of the smallest exterior containing it.
pub fn group(rs: Vec<Vec<P>>, simp: bool) -> Vec<(Vec<P>, Vec<Vec<P>>)> {
    let mut ext = vec![];
    let mut holes = vec![];
    for r in rs {
        let full = r.clone();
        let r2 = if simp { simplify(&r) } else { r };
        if area2(&r2) > 0 {
            ext.push((r2, full));
        } else {
            holes.push((r2, full));
        }
    }
    let mut polys: Vec<(Vec<P>, Vec<P>, Vec<Vec<P>>)> = ext.into_iter().map(|(e, f)| (e, f, vec![])).collect();
    for (h, full) in holes {
        // a point of the hole boundary that is no lattice vertex: the midpoint of its first
        // (unsimplified) edge, in doubled coordinates; it cannot lie on an exterior ring
        let (a, b) = (full[0], full[1]);
        let (mx, my) = (a.0 + b.0, a.1 + b.1);
        let mut best: Option<usize> = None;
        for (i, (_, ef, _)) in polys.iter().enumerate() {
            if inside2(ef, mx, my) && best.map(|bi| area2(&polys[bi].1) > area2(ef)).unwrap_or(true) {
                best = Some(i);
            }
        }
        polys[best.expect("hole without parent")].2.push(h);
    }
    polys.into_iter().map(|(e, _, hs)| (e, hs)).collect()
}

#[derive(Clone, Copy)]
pub struct Present {
    pub rotate: bool,
    pub reverse: bool,
    pub shuffle: bool,
    pub dups: bool,
    pub close: bool,
}
pub const PLAIN: Present = Present { rotate: false, reverse: false, shuffle: false, dups: false, close: true };
pub const RANDOMISED: Present = Present { rotate: true, reverse: true, shuffle: true, dups: false, close: true };

fn present_ring(r: &[P], pr: Present, rng: &mut Rng) -> IRing {
    let mut v = r.to_vec();
    if v.is_empty() {
        return v;
    }
    if pr.rotate {
        let n = v.len();
        v.rotate_left(rng.below(n as u64) as usize);
    }
    if pr.reverse && rng.chance(1, 2) {
        v.reverse();
    }
    let first = v[0];
    if pr.dups {
        let mut w = vec![];
        for p in &v {
            w.push(*p);
            if rng.chance(1, 4) {
                w.push(*p);
            }
        }
        v = w;
    }
    if pr.close || rng.chance(1, 2) {
        v.push(first);
    }
    v
}

/// Write canonical polygons down in a (possibly randomised) presentation.
pub fn present(polys: &[(Vec<P>, Vec<Vec<P>>)], pr: Present, rng: &mut Rng) -> IMp {
    let mut mp: IMp = polys
        .iter()
        .map(|(e, hs)| {
            let mut holes: Vec<IRing> = hs.iter().map(|h| present_ring(h, pr, rng)).collect();
            if pr.shuffle {
                rng.shuffle(&mut holes);
            }
            IPoly { ext: present_ring(e, pr, rng), holes }
        })
        .collect();
    if pr.shuffle {
        rng.shuffle(&mut mp);
    }
    mp
}

pub fn map_mp(mp: &IMp, f: &dyn Fn(P) -> P) -> IMp {
    mp.iter()
        .map(|p| IPoly {
            ext: p.ext.iter().map(|q| f(*q)).collect(),
            holes: p.holes.iter().map(|h| h.iter().map(|q| f(*q)).collect()).collect(),
        })
        .collect()
}

pub fn bbox(mp: &IMp) -> Option<(i64, i64, i64, i64)> {
    let mut it = mp.iter().flat_map(|p| p.ext.iter().chain(p.holes.iter().flatten()));
    let f = *it.next()?;
    let mut b = (f.0, f.1, f.0, f.1);
    for q in it {
        b = (b.0.min(q.0), b.1.min(q.1), b.2.max(q.0), b.3.max(q.1));
    }
    Some(b)
}

pub fn n_edges(mp: &IMp) -> usize {
    mp.iter()
        .map(|p| {
            let c = |r: &IRing| r.windows(2).filter(|w| w[0] != w[1]).count();
            c(&p.ext) + p.holes.iter().map(c).sum::<usize>()
        })
        .sum()
}

/// The 8 symmetries of the square lattice.
pub fn sym(t: u32, p: P) -> P {
    match t % 8 {
        0 => (p.0, p.1),
        1 => (-p.0, p.1),
        2 => (p.0, -p.1),
        3 => (-p.0, -p.1),
        4 => (p.1, p.0),
        5 => (-p.1, p.0),
        6 => (p.1, -p.0),
        _ => (-p.1, -p.0),
    }
}

/// integer matrices used for the "rounding" families (general slopes, intersection points stay
/// integral because they are images of lattice points)
pub const MATS: [[i64; 4]; 6] = [[2, 1, 1, 3], [3, 1, -1, 2], [1, 2, 0, 1], [1, 0, 3, 1], [5, 2, 2, 1], [3, -2, 1, 4]];

#[derive(Clone, Debug)]
pub struct Family {
    pub name: String,
    pub kx: i64,
    pub ky: i64,
    pub mode_a: u32,
    pub mode_b: u32,
    pub cell: i64,
    pub shift: P,
    pub simp: bool,
    pub dens: u64,
    pub mat: Option<[i64; 4]>,
    pub origin: P,
}

/// Draw the parameters of an operand pair of the named family.
/// families: rect | cx (same triangulation) | cxmix (different diagonals: crossings at cell
/// centres) | cxshift (B's lattice shifted by half a cell) | any of these with prefix "aff-"
/// (integer affine image: general slopes).
pub fn family(name: &str, kmax: i64, rng: &mut Rng) -> Family {
    let (aff, base) = match name.strip_prefix("aff-") {
        Some(b) => (true, b),
        None => (false, name),
    };
    let kx = rng.range(1.max(kmax.min(2)), kmax);
    let ky = rng.range(1.max(kmax.min(2)), kmax);
    let simp = rng.chance(1, 2);
    let dens = *rng.pick(&[30u64, 50, 50, 70]);
    let (mode_a, mode_b, cell, shift) = match base {
        "rect" => (4, 4, 2, (0, 0)),
        "rectw" => (4, 4, 1, (0, 0)),
        "cx" => {
            let m = *rng.pick(&[0u32, 1, 2, 3]);
            (m, m, 2, (0, 0))
        }
        "cxmix" => {
            let ma = *rng.pick(&[0u32, 1, 3, 4]);
            let mut mb = *rng.pick(&[0u32, 1, 2, 3]);
            if mb == ma {
                mb = (ma + 1) % 4;
            }
            (ma, mb, 2, (0, 0))
        }
        "cxshift" => {
            let ma = *rng.pick(&[0u32, 1, 2, 3, 4]);
            let mb = *rng.pick(&[0u32, 1, 2, 3, 4]);
            let mut s = (2 * rng.range(-1, 1), 2 * rng.range(-1, 1));
            if s == (0, 0) {
                s = (2, 0);
            }
            (ma, mb, 4, s)
        }
        _ => panic!("unknown family {}", name),
    };
    let mat = if aff { Some(*rng.pick(&MATS)) } else { None };
    let (kx, ky, origin) = if base == "rectw" { (kx + rng.range(0, 3), ky + rng.range(0, 3), (rng.range(-40, 40), rng.range(-40, 40))) } else { (kx, ky, (0, 0)) };
    Family { name: name.to_string(), kx, ky, mode_a, mode_b, cell, shift, simp, dens, mat, origin }
}

/// canonical polygons (exterior CCW, holes CW, unclosed) of a random operand of the family
pub fn operand(f: &Family, second: bool, rng: &mut Rng) -> Vec<(Vec<P>, Vec<Vec<P>>)> {
    let (mode, off) = if second { (f.mode_b, (f.shift.0 + f.origin.0, f.shift.1 + f.origin.1)) } else { (f.mode_a, f.origin) };
    let tris = complex(f.kx, f.ky, mode, f.cell, off);
    let sel = select(tris.len(), mode, f.dens, rng);
    let polys = group(rings(&tris, &sel), f.simp);
    match f.mat {
        None => polys,
        Some(m) => {
            let det = m[0] * m[3] - m[1] * m[2];
            let tf = |p: P| (m[0] * p.0 + m[1] * p.1, m[2] * p.0 + m[3] * p.1);
            polys
                .into_iter()
                .map(|(e, hs)| {
                    let mut e2: Vec<P> = e.iter().map(|p| tf(*p)).collect();
                    let mut h2: Vec<Vec<P>> = hs.iter().map(|h| h.iter().map(|p| tf(*p)).collect()).collect();
                    if det < 0 {
                        e2.reverse();
                        for h in h2.iter_mut() {
                            h.reverse();
                        }
                    }
                    (e2, h2)
                })
                .collect()
        }
    }
}

/// All non-degenerate lattice triangles on an (n+1)x(n+1) lattice scaled by l, as CCW vertex
/// triples starting at the lexicographically least vertex (same enumeration as the TLA+ family).
pub fn lattice_triangles(n: i64, l: i64) -> Vec<[P; 3]> {
    let mut pts = vec![];
    for x in 0..=n {
        for y in 0..=n {
            pts.push((l * x, l * y));
        }
    }
    let mut out = vec![];
    for &a in &pts {
        for &b in &pts {
            for &c in &pts {
                let o = cross(sub(b, a), sub(c, a));
                if o > 0 && a < b && a < c {
                    out.push([a, b, c]);
                }
            }
        }
    }
    out.sort();
    out
}
