//! Input generators. Every operand is VALID BY CONSTRUCTION (simple rings, holes inside their
//! exterior, parts interior-disjoint, touching only in points): operands are unions of triangles
//! of a triangulated lattice, their boundary is traced into simple rings. No validity test, no
//! oracle: the harness never judges a result.
use crate::rng::Rng;
use std::collections::HashMap;

pub type P = (i64, i64);
pub type IRing = Vec<P>; // as handed to LineString (closing vertex included when present)
#[derive(Clone, Debug, PartialEq)]
pub struct IPoly {
    pub ext: IRing,
    pub holes: Vec<IRing>,
}
pub type IMp = Vec<IPoly>;
pub type Tri = [P; 3];

fn cross(a: P, b: P) -> i64 {
    a.0 * b.1 - a.1 * b.0
}
fn dot(a: P, b: P) -> i64 {
    a.0 * b.0 + a.1 * b.1
}
fn sub(a: P, b: P) -> P {
    (a.0 - b.0, a.1 - b.1)
}
pub fn area2(r: &[P]) -> i64 {
    let n = r.len();
    (0..n).map(|i| cross(r[i], r[(i + 1) % n])).sum()
}

/// Triangulated k×k lattice with cells of side `cell` (even). mode 0: "/" diagonal, 1: "\",
/// 2: both diagonals (4 triangles, integral centre), 3: alternating, 4: none (axis-parallel;
/// the two triangles of a cell are always selected together, see `select`).
pub fn complex(kx: i64, ky: i64, mode: u32, cell: i64, off: P) -> Vec<Tri> {
    let mut t = vec![];
    let h = cell / 2;
    for x in 0..kx {
        for y in 0..ky {
            let (x0, y0) = (off.0 + cell * x, off.1 + cell * y);
            let (a, b, c, d, m) = (
                (x0, y0),
                (x0 + cell, y0),
                (x0 + cell, y0 + cell),
                (x0, y0 + cell),
                (x0 + h, y0 + h),
            );
            match mode {
                0 | 4 => {
                    t.push([a, b, c]);
                    t.push([a, c, d]);
                }
                1 => {
                    t.push([a, b, d]);
                    t.push([b, c, d]);
                }
                2 => {
                    t.push([a, b, m]);
                    t.push([b, c, m]);
                    t.push([c, d, m]);
                    t.push([d, a, m]);
                }
                _ => {
                    if (x + y) % 2 == 0 {
                        t.push([a, b, c]);
                        t.push([a, c, d]);
                    } else {
                        t.push([a, b, d]);
                        t.push([b, c, d]);
                    }
                }
            }
        }
    }
    t
}

/// Random subset of the triangles; in mode 4 whole cells are selected.
pub fn select(n_tris: usize, mode: u32, dens_pct: u64, rng: &mut Rng) -> Vec<bool> {
    if mode == 4 {
        let mut v = vec![];
        for _ in 0..n_tris / 2 {
            let s = rng.chance(dens_pct, 100);
            v.push(s);
            v.push(s);
        }
        v
    } else {
        (0..n_tris).map(|_| rng.chance(dens_pct, 100)).collect()
    }
}

/// Boundary of the union of the selected triangles as simple rings (unclosed vertex lists):
/// counter-clockwise rings are exteriors, clockwise rings are holes.
pub fn rings(tris: &[Tri], sel: &[bool]) -> Vec<Vec<P>> {
    let mut cnt: HashMap<(P, P), i32> = HashMap::new();
    for (i, t) in tris.iter().enumerate() {
        if !sel[i] {
            continue;
        }
        debug_assert!(area2(t) > 0);
        for j in 0..3 {
            let (a, b) = (t[j], t[(j + 1) % 3]);
            if let Some(c) = cnt.get_mut(&(b, a)) {
                *c -= 1;
                if *c == 0 {
                    cnt.remove(&(b, a));
                }
            } else {
                *cnt.entry((a, b)).or_default() += 1;
            }
        }
    }
    let mut out: HashMap<P, Vec<P>> = HashMap::new();
    for ((a, b), c) in &cnt {
        assert!(*c == 1);
        out.entry(*a).or_default().push(*b);
    }
    for v in out.values_mut() {
        v.sort();
    }
    let ang = |d: P, o: P| -> f64 { (cross(d, o) as f64).atan2(dot(d, o) as f64) };
    let mut res = vec![];
    loop {
        let start = match out.iter().filter(|(_, v)| !v.is_empty()).map(|(k, _)| *k).min() {
            Some(s) => s,
            None => break,
        };
        // walk a closed trail taking the leftmost turn; cut off a simple ring whenever a vertex repeats
        let mut path = vec![start];
        let first = out.get_mut(&start).unwrap().remove(0);
        let mut prev = start;
        let mut cur = first;
        loop {
            if let Some(pos) = path.iter().position(|p| *p == cur) {
                res.push(path[pos..].to_vec());
                path.truncate(pos + 1);
                if pos == 0 && out[&cur].is_empty() {
                    break;
                }
            } else {
                path.push(cur);
            }
            let v = out.get_mut(&cur).unwrap();
            if v.is_empty() {
                assert!(path.len() == 1);
                break;
            }
            let d = sub(cur, prev);
            let mut bi = 0;
            let mut ba = -10.0;
            for (i, o) in v.iter().enumerate() {
                let a = ang(d, sub(*o, cur));
                if a > ba {
                    ba = a;
                    bi = i;
                }
            }
            let nxt = v.remove(bi);
            prev = cur;
            cur = nxt;
        }
    }
    res
}

/// Drop vertices that are collinear with their neighbours (creates vertex-on-edge touches).
pub fn simplify(r: &[P]) -> Vec<P> {
    let n = r.len();
    (0..n)
        .filter(|&i| cross(sub(r[i], r[(i + n - 1) % n]), sub(r[(i + 1) % n], r[i])) != 0)
        .map(|i| r[i])
        .collect()
}

/// exact even-odd test of a doubled point (px2, py2) against a ring (half-open rule)
fn inside2(ring: &[P], px2: i64, py2: i64) -> bool {
    let n = ring.len();
    let mut c = false;
    for i in 0..n {
        let (a, b) = (ring[i], ring[(i + 1) % n]);
        let (ay, by) = (2 * a.1, 2 * b.1);
        if (ay > py2) != (by > py2) {
            // x of the crossing > px  <=>  sign test without division
            let (ax, bx) = (2 * a.0, 2 * b.0);
            // x_cross = ax + (py2-ay)*(bx-ax)/(by-ay)
            let lhs = (py2 - ay) * (bx - ax) - (px2 - ax) * (by - ay);
            if (by - ay > 0 && lhs > 0) || (by - ay < 0 && lhs < 0) {
                c = !c;
            }
        }
    }
    c
}

/// Group simple rings into polygons: positive rings are exteriors, each negative ring is a hole
/// of the smallest exterior containing it.
pub fn group(rs: Vec<Vec<P>>, simp: bool) -> Vec<(Vec<P>, Vec<Vec<P>>)> {
    let mut ext = vec![];
    let mut holes = vec![];
    for r in rs {
        let full = r.clone();
        let r2 = if simp { simplify(&r) } else { r };
        if area2(&r2) > 0 {
            ext.push((r2, full));
        } else {
            holes.push((r2, full));
        }
    }
    let mut polys: Vec<(Vec<P>, Vec<P>, Vec<Vec<P>>)> = ext.into_iter().map(|(e, f)| (e, f, vec![])).collect();
    for (h, full) in holes {
        // a point of the hole boundary that is no lattice vertex: the midpoint of its first
        // (unsimplified) edge, in doubled coordinates; it cannot lie on an exterior ring
        let (a, b) = (full[0], full[1]);
        let (mx, my) = (a.0 + b.0, a.1 + b.1);
        let mut best: Option<usize> = None;
        for (i, (_, ef, _)) in polys.iter().enumerate() {
            if inside2(ef, mx, my) && best.map(|bi| area2(&polys[bi].1) > area2(ef)).unwrap_or(true) {
                best = Some(i);
            }
        }
        polys[best.expect("hole without parent")].2.push(h);
    }
    polys.into_iter().map(|(e, _, hs)| (e, hs)).collect()
}

#[derive(Clone, Copy)]
pub struct Present {
    pub rotate: bool,
    pub reverse: bool,
    pub shuffle: bool,
    pub dups: bool,
    pub close: bool,
}
pub const PLAIN: Present = Present { rotate: false, reverse: false, shuffle: false, dups: false, close: true };
pub const RANDOMISED: Present = Present { rotate: true, reverse: true, shuffle: true, dups: false, close: true };

fn present_ring(r: &[P], pr: Present, rng: &mut Rng) -> IRing {
    let mut v = r.to_vec();
    if v.is_empty() {
        return v;
    }
    if pr.rotate {
        let n = v.len();
        v.rotate_left(rng.below(n as u64) as usize);
    }
    if pr.reverse && rng.chance(1, 2) {
        v.reverse();
    }
    let first = v[0];
    if pr.dups {
        let mut w = vec![];
        for p in &v {
            w.push(*p);
            if rng.chance(1, 4) {
                w.push(*p);
            }
        }
        v = w;
    }
    if pr.close || rng.chance(1, 2) {
        v.push(first);
        if pr.dups && rng.chance(1, 3) {
            v.push(first); // the closing vertex itself repeated: [A, B, .., A, A]
        }
    }
    v
}

/// Write canonical polygons down in a (possibly randomised) presentation.
pub fn present(polys: &[(Vec<P>, Vec<Vec<P>>)], pr: Present, rng: &mut Rng) -> IMp {
    let mut mp: IMp = polys
        .iter()
        .map(|(e, hs)| {
            let mut holes: Vec<IRing> = hs.iter().map(|h| present_ring(h, pr, rng)).collect();
            if pr.shuffle {
                rng.shuffle(&mut holes);
            }
            IPoly { ext: present_ring(e, pr, rng), holes }
        })
        .collect();
    if pr.shuffle {
        rng.shuffle(&mut mp);
    }
    mp
}

pub fn map_mp(mp: &IMp, f: &dyn Fn(P) -> P) -> IMp {
    mp.iter()
        .map(|p| IPoly {
            ext: p.ext.iter().map(|q| f(*q)).collect(),
            holes: p.holes.iter().map(|h| h.iter().map(|q| f(*q)).collect()).collect(),
        })
        .collect()
}

pub fn bbox(mp: &IMp) -> Option<(i64, i64, i64, i64)> {
    let mut it = mp.iter().flat_map(|p| p.ext.iter().chain(p.holes.iter().flatten()));
    let f = *it.next()?;
    let mut b = (f.0, f.1, f.0, f.1);
    for q in it {
        b = (b.0.min(q.0), b.1.min(q.1), b.2.max(q.0), b.3.max(q.1));
    }
    Some(b)
}

pub fn n_edges(mp: &IMp) -> usize {
    mp.iter()
        .map(|p| {
            let c = |r: &IRing| r.windows(2).filter(|w| w[0] != w[1]).count();
            c(&p.ext) + p.holes.iter().map(c).sum::<usize>()
        })
        .sum()
}

/// The 8 symmetries of the square lattice.
pub fn sym(t: u32, p: P) -> P {
    match t % 8 {
        0 => (p.0, p.1),
        1 => (-p.0, p.1),
        2 => (p.0, -p.1),
        3 => (-p.0, -p.1),
        4 => (p.1, p.0),
        5 => (-p.1, p.0),
        6 => (p.1, -p.0),
        _ => (-p.1, -p.0),
    }
}

/// integer matrices used for the "rounding" families (general slopes, intersection points stay
/// integral because they are images of lattice points)
pub const MATS: [[i64; 4]; 6] = [[2, 1, 1, 3], [3, 1, -1, 2], [1, 2, 0, 1], [1, 0, 3, 1], [5, 2, 2, 1], [3, -2, 1, 4]];

#[derive(Clone, Debug)]
pub struct Family {
    pub name: String,
    pub kx: i64,
    pub ky: i64,
    pub mode_a: u32,
    pub mode_b: u32,
    pub cell: i64,
    pub shift: P,
    pub simp: bool,
    pub dens: u64,
    pub mat: Option<[i64; 4]>,
    pub origin: P,
}

/// Draw the parameters of an operand pair of the named family.
/// families: rect | cx (same triangulation) | cxmix (different diagonals: crossings at cell
/// centres) | cxshift (B's lattice shifted by half a cell) | any of these with prefix "aff-"
/// (integer affine image: general slopes).
pub fn family(name: &str, kmax: i64, rng: &mut Rng) -> Family {
    let (aff, base) = match name.strip_prefix("aff-") {
        Some(b) => (true, b),
        None => (false, name),
    };
    let kx = rng.range(1.max(kmax.min(2)), kmax);
    let ky = rng.range(1.max(kmax.min(2)), kmax);
    let simp = rng.chance(1, 2);
    let dens = *rng.pick(&[30u64, 50, 50, 70]);
    let (mode_a, mode_b, cell, shift) = match base {
        "rect" => (4, 4, 2, (0, 0)),
        "rectw" => (4, 4, 1, (0, 0)),
        "cx" | "cxabut" | "cxsub" => {
            let m = *rng.pick(&[0u32, 1, 2, 3, 4]);
            (m, m, 2, (0, 0))
        }
        "cxmix" => {
            let ma = *rng.pick(&[0u32, 1, 3, 4]);
            let mut mb = *rng.pick(&[0u32, 1, 2, 3]);
            if mb == ma {
                mb = (ma + 1) % 4;
            }
            (ma, mb, 2, (0, 0))
        }
        "cxshift" => {
            let ma = *rng.pick(&[0u32, 1, 2, 3, 4]);
            let mb = *rng.pick(&[0u32, 1, 2, 3, 4]);
            let mut s = (2 * rng.range(-1, 1), 2 * rng.range(-1, 1));
            if s == (0, 0) {
                s = (2, 0);
            }
            (ma, mb, 4, s)
        }
        _ => panic!("unknown family {}", name),
    };
    let mat = if aff { Some(*rng.pick(&MATS)) } else { None };
    let (kx, ky, origin) = if base == "rectw" { (kx + rng.range(0, 3), ky + rng.range(0, 3), (rng.range(-40, 40), rng.range(-40, 40))) } else { (kx, ky, (0, 0)) };
    Family { name: name.to_string(), kx, ky, mode_a, mode_b, cell, shift, simp, dens, mat, origin }
}

/// Operand pair whose second operand is drawn from the complement of the first ("cxabut": the
/// operands abut along many shared boundary segments, interiors disjoint) or from the first
/// itself ("cxsub": B inside A with shared boundary pieces), on one triangulation.
pub fn related_pair(f: &Family, rng: &mut Rng) -> (Vec<(Vec<P>, Vec<Vec<P>>)>, Vec<(Vec<P>, Vec<Vec<P>>)>) {
    let tris = complex(f.kx, f.ky, f.mode_a, f.cell, f.origin);
    let sel_a = select(tris.len(), f.mode_a, f.dens, rng);
    let pick = select(tris.len(), f.mode_a, 65, rng);
    let abut = f.name.ends_with("cxabut");
    let sel_b: Vec<bool> = (0..tris.len()).map(|i| pick[i] && (sel_a[i] != abut)).collect();
    let tf = |polys: Vec<(Vec<P>, Vec<Vec<P>>)>| -> Vec<(Vec<P>, Vec<Vec<P>>)> {
        match f.mat {
            None => polys,
            Some(m) => {
                let det = m[0] * m[3] - m[1] * m[2];
                let t = |p: P| (m[0] * p.0 + m[1] * p.1, m[2] * p.0 + m[3] * p.1);
                polys
                    .into_iter()
                    .map(|(e, hs)| {
                        let mut e2: Vec<P> = e.iter().map(|p| t(*p)).collect();
                        let mut h2: Vec<Vec<P>> = hs.iter().map(|h| h.iter().map(|p| t(*p)).collect()).collect();
                        if det < 0 {
                            e2.reverse();
                            for h in h2.iter_mut() {
                                h.reverse();
                            }
                        }
                        (e2, h2)
                    })
                    .collect()
            }
        }
    };
    (tf(group(rings(&tris, &sel_a), f.simp)), tf(group(rings(&tris, &sel_b), f.simp)))
}

/// canonical polygons (exterior CCW, holes CW, unclosed) of a random operand of the family
pub fn operand(f: &Family, second: bool, rng: &mut Rng) -> Vec<(Vec<P>, Vec<Vec<P>>)> {
    let (mode, off) = if second { (f.mode_b, (f.shift.0 + f.origin.0, f.shift.1 + f.origin.1)) } else { (f.mode_a, f.origin) };
    let tris = complex(f.kx, f.ky, mode, f.cell, off);
    let sel = select(tris.len(), mode, f.dens, rng);
    let polys = group(rings(&tris, &sel), f.simp);
    match f.mat {
        None => polys,
        Some(m) => {
            let det = m[0] * m[3] - m[1] * m[2];
            let tf = |p: P| (m[0] * p.0 + m[1] * p.1, m[2] * p.0 + m[3] * p.1);
            polys
                .into_iter()
                .map(|(e, hs)| {
                    let mut e2: Vec<P> = e.iter().map(|p| tf(*p)).collect();
                    let mut h2: Vec<Vec<P>> = hs.iter().map(|h| h.iter().map(|p| tf(*p)).collect()).collect();
                    if det < 0 {
                        e2.reverse();
                        for h in h2.iter_mut() {
                            h.reverse();
                        }
                    }
                    (e2, h2)
                })
                .collect()
        }
    }
}

/// All non-degenerate lattice triangles on an (n+1)x(n+1) lattice scaled by l, as CCW vertex
/// triples starting at the lexicographically least vertex (same enumeration as the TLA+ family).
pub fn lattice_triangles(n: i64, l: i64) -> Vec<[P; 3]> {
    let mut pts = vec![];
    for x in 0..=n {
        for y in 0..=n {
            pts.push((l * x, l * y));
        }
    }
    let mut out = vec![];
    for &a in &pts {
        for &b in &pts {
            for &c in &pts {
                let o = cross(sub(b, a), sub(c, a));
                if o > 0 && a < b && a < c {
                    out.push([a, b, c]);
                }
            }
        }
    }
    out.sort();
    out
}

// ------------------------------------------------------------------------------------------
// ENUMERATED families "en:<kx>x<ky>:<modeA>[/<modeB>]:<sx>_<sy>:<s|k>": EVERY ordered pair of
// subsets of the units (cells in mode 4, triangles otherwise) of a small triangulated lattice,
// addressed by an index (ENUM_POS, set by the recording loops): index = maskA * 2^n + maskB.
// B's lattice may be shifted by (sx, sy) half cells (cells have side 4). `s`: collinear vertices
// removed (vertex-on-edge touches), `k`: kept. Same construction as `cx`, no random choice in
// the region: the recording loops walk the index range, so a stride-1 run is exhaustive.
pub static ENUM_POS: std::sync::atomic::AtomicU64 = std::sync::atomic::AtomicU64::new(0);

pub struct EnumFam {
    pub kx: i64,
    pub ky: i64,
    pub mode_a: u32,
    pub mode_b: u32,
    pub shift: P,
    pub simp: bool,
}

pub fn enum_parse(name: &str) -> Option<EnumFam> {
    let f: Vec<&str> = name.strip_prefix("en:")?.split(':').collect();
    if f.len() != 4 {
        panic!("enumerated family: en:<kx>x<ky>:<modeA>[/<modeB>]:<sx>_<sy>:<s|k>, got {}", name);
    }
    let g: Vec<i64> = f[0].split('x').map(|v| v.parse().expect("grid")).collect();
    let m: Vec<u32> = f[1].split('/').map(|v| v.parse().expect("mode")).collect();
    let sh: Vec<i64> = f[2].split('_').map(|v| v.parse().expect("shift")).collect();
    Some(EnumFam { kx: g[0], ky: g[1], mode_a: m[0], mode_b: *m.last().unwrap(), shift: (2 * sh[0], 2 * sh[1]), simp: f[3] == "s" })
}

fn enum_units(kx: i64, ky: i64, mode: u32) -> u32 {
    (kx * ky) as u32 * match mode { 4 => 1, 2 => 4, _ => 2 }
}

/// number of operand pairs of an enumerated family
pub fn enum_total(name: &str) -> u64 {
    let f = enum_parse(name).expect("enumerated family");
    1u64 << (enum_units(f.kx, f.ky, f.mode_a) + enum_units(f.kx, f.ky, f.mode_b))
}

fn enum_operand(kx: i64, ky: i64, mode: u32, off: P, mask: u64, simp: bool) -> Vec<(Vec<P>, Vec<Vec<P>>)> {
    let tris = complex(kx, ky, mode, 4, off);
    let per = if mode == 4 { 2 } else { 1 };
    let sel: Vec<bool> = (0..tris.len()).map(|i| (mask >> (i / per)) & 1 == 1).collect();
    group(rings(&tris, &sel), simp)
}

pub fn enum_pair(name: &str) -> (Vec<(Vec<P>, Vec<Vec<P>>)>, Vec<(Vec<P>, Vec<Vec<P>>)>) {
    let f = enum_parse(name).expect("enumerated family");
    let (na, nb) = (enum_units(f.kx, f.ky, f.mode_a), enum_units(f.kx, f.ky, f.mode_b));
    let idx = ENUM_POS.load(std::sync::atomic::Ordering::SeqCst) % (1u64 << (na + nb));
    let (ma, mb) = (idx >> nb, idx & ((1u64 << nb) - 1));
    (enum_operand(f.kx, f.ky, f.mode_a, (0, 0), ma, f.simp), enum_operand(f.kx, f.ky, f.mode_b, f.shift, mb, f.simp))
}

// ------------------------------------------------------------------------------------------
// family "frames": axis-parallel frames (rectangles with rectangular holes, optional island)
// against rectangles that ABUT a boundary edge of the frame from one side, overlap it, or float
// freely: operands sharing boundary segments, pieces directly above shared segments.

fn rect_ring(x0: i64, y0: i64, x1: i64, y1: i64, ccw: bool) -> Vec<P> {
    let r = vec![(x0, y0), (x1, y0), (x1, y1), (x0, y1)];
    if ccw {
        r
    } else {
        r.into_iter().rev().collect()
    }
}
type Rect = (i64, i64, i64, i64);
fn touch_more_than_point(a: Rect, b: Rect) -> bool {
    // closed rectangles: do they share more than a single point?
    let ix = (a.0.max(b.0), a.2.min(b.2));
    let iy = (a.1.max(b.1), a.3.min(b.3));
    if ix.0 > ix.1 || iy.0 > iy.1 {
        return false;
    }
    !(ix.0 == ix.1 && iy.0 == iy.1)
}
pub fn frames_pair(rng: &mut Rng) -> (Vec<(Vec<P>, Vec<Vec<P>>)>, Vec<(Vec<P>, Vec<Vec<P>>)>) {
    let ox = rng.range(-6, 6);
    let oy = rng.range(-6, 6);
    let (w, h) = (rng.range(5, 12), rng.range(5, 12));
    let outer: Rect = (ox, oy, ox + w, oy + h);
    // holes
    let mut holes: Vec<Rect> = vec![];
    for _ in 0..rng.range(1, 2) {
        for _try in 0..20 {
            let x0 = rng.range(outer.0 + 1, outer.2 - 2);
            let y0 = rng.range(outer.1 + 1, outer.3 - 2);
            let x1 = rng.range(x0 + 1, outer.2 - 1);
            let y1 = rng.range(y0 + 1, outer.3 - 1);
            let c = (x0, y0, x1, y1);
            if holes.iter().all(|hh| !touch_more_than_point(*hh, c)) {
                holes.push(c);
                break;
            }
        }
    }
    let mut a = vec![(rect_ring(outer.0, outer.1, outer.2, outer.3, true), holes.iter().map(|q| rect_ring(q.0, q.1, q.2, q.3, false)).collect::<Vec<_>>())];
    // optional islands: inside a hole (strictly) or somewhere outside
    if !holes.is_empty() && rng.chance(1, 3) {
        let q = holes[0];
        if q.2 - q.0 >= 3 && q.3 - q.1 >= 3 {
            a.push((rect_ring(q.0 + 1, q.1 + 1, q.2 - 1, q.3 - 1, true), vec![]));
        }
    }
    if rng.chance(1, 3) {
        let (iw, ih) = (rng.range(1, 4), rng.range(1, 4));
        let x0 = rng.range(outer.0, outer.2 - 1);
        let y0 = outer.3 + rng.range(1, 4);
        a.push((rect_ring(x0, y0, x0 + iw, y0 + ih, true), vec![]));
    }
    // B: rectangles attached to edges of the frame
    let mut edges: Vec<(Rect, u8)> = vec![]; // (edge as degenerate rect, side: 0 bottom-of-outer.. )
    let add_edges = |r: Rect, edges: &mut Vec<(Rect, u8)>| {
        edges.push(((r.0, r.1, r.2, r.1), 0)); // bottom edge (horizontal, y = r.1)
        edges.push(((r.0, r.3, r.2, r.3), 1)); // top
        edges.push(((r.0, r.1, r.0, r.3), 2)); // left (vertical, x = r.0)
        edges.push(((r.2, r.1, r.2, r.3), 3)); // right
    };
    add_edges(outer, &mut edges);
    for q in &holes {
        add_edges(*q, &mut edges);
    }
    let mut brects: Vec<Rect> = vec![];
    let nb = rng.range(1, 3);
    for _ in 0..nb {
        for _try in 0..30 {
            let c: Rect = if rng.chance(1, 4) {
                let x0 = rng.range(outer.0 - 3, outer.2 + 1);
                let y0 = rng.range(outer.1 - 3, outer.3 + 1);
                (x0, y0, x0 + rng.range(1, 6), y0 + rng.range(1, 6))
            } else {
                let (e, side) = *rng.pick(&edges);
                let depth = rng.range(1, 3);
                let below_or_left = rng.chance(1, 2);
                if side < 2 {
                    // horizontal edge at y = e.1: choose an x-interval overlapping it
                    let a0 = rng.range(e.0 - 2, e.2 - 1);
                    let a1 = rng.range(a0.max(e.0) + 1, e.2 + 2);
                    if below_or_left { (a0, e.1 - depth, a1, e.1) } else { (a0, e.1, a1, e.1 + depth) }
                } else {
                    let a0 = rng.range(e.1 - 2, e.3 - 1);
                    let a1 = rng.range(a0.max(e.1) + 1, e.3 + 2);
                    if below_or_left { (e.0 - depth, a0, e.0, a1) } else { (e.0, a0, e.0 + depth, a1) }
                }
            };
            if c.0 < c.2 && c.1 < c.3 && brects.iter().all(|q| !touch_more_than_point(*q, c)) {
                brects.push(c);
                break;
            }
        }
    }
    let b = brects.iter().map(|q| (rect_ring(q.0, q.1, q.2, q.3, true), vec![])).collect();
    (a, b)
}

// ------------------------------------------------------------------------------------------
// family "lat": simple polygons with vertices on a small lattice and GENERAL slopes, scaled by
// the least common denominator of all their pairwise edge intersection points, so that the
// exact arrangement is integral (|coordinate| <= 4000).

fn gcd(a: i64, b: i64) -> i64 {
    if b == 0 {
        a.abs()
    } else {
        gcd(b, a % b)
    }
}
fn seg_cross_den(a1: P, a2: P, b1: P, b2: P) -> Option<i64> {
    // denominator needed to make the meeting point of two non-parallel segments integral (None: no single-point meeting)
    let va = sub(a2, a1);
    let vb = sub(b2, b1);
    let e = sub(b1, a1);
    let k = cross(va, vb);
    if k == 0 {
        return None;
    }
    let (sn, tn) = (cross(e, vb), cross(e, va));
    let inr = |x: i64| if k > 0 { x >= 0 && x <= k } else { x <= 0 && x >= k };
    if !inr(sn) || !inr(tn) {
        return None;
    }
    // point = a1 + sn/k * va
    let dx = k.abs() / gcd(sn * va.0, k);
    let dy = k.abs() / gcd(sn * va.1, k);
    Some(dx / gcd(dx, dy) * dy)
}
fn simple_polygon(n: i64, rng: &mut Rng) -> Vec<P> {
    loop {
        let m = rng.range(3, 5) as usize;
        let mut pts: Vec<P> = vec![];
        while pts.len() < m {
            let p = (rng.range(0, n), rng.range(0, n));
            if !pts.contains(&p) {
                pts.push(p);
            }
        }
        // star-shaped ordering around the (tripled) centroid
        let c = (pts.iter().map(|p| p.0).sum::<i64>() as f64 / m as f64, pts.iter().map(|p| p.1).sum::<i64>() as f64 / m as f64);
        pts.sort_by(|a, b| {
            let aa = (a.1 as f64 - c.1).atan2(a.0 as f64 - c.0);
            let bb = (b.1 as f64 - c.1).atan2(b.0 as f64 - c.0);
            aa.partial_cmp(&bb).unwrap()
        });
        if area2(&pts) <= 0 {
            continue;
        }
        // exact simplicity: no collinear consecutive triple, non-adjacent edges do not meet, adjacent only at the vertex
        let ok = (0..m).all(|i| {
            let (a, b, c2) = (pts[i], pts[(i + 1) % m], pts[(i + 2) % m]);
            cross(sub(b, a), sub(c2, b)) != 0
        }) && (0..m).all(|i| {
            (0..m).all(|j| {
                if i == j || (i + 1) % m == j || (j + 1) % m == i {
                    return true;
                }
                let (a1, a2, b1, b2) = (pts[i], pts[(i + 1) % m], pts[j], pts[(j + 1) % m]);
                let o = |p: P, q: P, r: P| cross(sub(q, p), sub(r, p)).signum();
                let (o1, o2, o3, o4) = (o(a1, a2, b1), o(a1, a2, b2), o(b1, b2, a1), o(b1, b2, a2));
                !((o1 * o2 <= 0) && (o3 * o4 <= 0))
            })
        });
        if ok {
            return pts;
        }
    }
}
/// like `lat` but NOT scaled: meeting points are non-integral rationals. Only for checks that
/// evaluate geometry-free laws (C12): the integer oracle cannot judge these inputs.
pub fn latraw_pair(rng: &mut Rng) -> (Vec<(Vec<P>, Vec<Vec<P>>)>, Vec<(Vec<P>, Vec<Vec<P>>)>) {
    let n = rng.range(3, 7);
    let a = simple_polygon(n, rng);
    let b = simple_polygon(n, rng);
    (vec![(a, vec![])], vec![(b, vec![])])
}
pub fn lat_pair(rng: &mut Rng) -> (Vec<(Vec<P>, Vec<Vec<P>>)>, Vec<(Vec<P>, Vec<Vec<P>>)>) {
    loop {
        let n = rng.range(3, 6);
        let a = simple_polygon(n, rng);
        let mut b = simple_polygon(n, rng);
        // often push B towards a corner region of A's box so that the boxes overlap only a little
        if rng.chance(1, 2) {
            let d = (rng.range(-n + 1, n - 1), rng.range(-n + 1, n - 1));
            b = b.iter().map(|p| (p.0 + d.0, p.1 + d.1)).collect();
        }
        let mut l: i64 = 1;
        let mut ok = true;
        for i in 0..a.len() {
            for j in 0..b.len() {
                if let Some(d) = seg_cross_den(a[i], a[(i + 1) % a.len()], b[j], b[(j + 1) % b.len()]) {
                    l = l / gcd(l, d) * d;
                    if l > 600 {
                        ok = false;
                    }
                }
            }
        }
        if !ok || l * 2 * n > 4000 {
            continue;
        }
        let sc = |r: &Vec<P>| -> Vec<P> { r.iter().map(|p| (p.0 * l, p.1 * l)).collect() };
        return (vec![(sc(&a), vec![])], vec![(sc(&b), vec![])]);
    }
}

/// family "cxsplit": one triangulated lattice cut by a vertical line x = c: A is drawn from the cells
/// left of it, B from the cells right of it, so the operands' BOUNDING BOXES TOUCH along that line (or
/// are disjoint, when a side stays away from it) while the operands themselves meet in points or along
/// pieces of the line: tips touching the interior of a long vertical side (collinear vertices are
/// usually removed), sides shared in part. One of the 8 lattice symmetries is applied, so the common
/// line is vertical or horizontal and either operand is on either side.
pub fn cxsplit_pair(kmax: i64, rng: &mut Rng) -> (Vec<(Vec<P>, Vec<Vec<P>>)>, Vec<(Vec<P>, Vec<Vec<P>>)>) {
    loop {
        let (kx, ky) = (rng.range(2, kmax.max(2) + 1), rng.range(1, kmax.max(2)));
        let mode = *rng.pick(&[0u32, 1, 2, 3, 4, 4]);
        let cut = rng.range(1, kx - 1);
        let tris = complex(kx, ky, mode, 2, (0, 0));
        let per = match mode { 2 => 4, _ => 2 };
        let dens = *rng.pick(&[50u64, 70, 85]);
        let pick = select(tris.len(), mode, dens, rng);
        // cells are generated column by column (x outer loop): triangle i belongs to column i / (per * ky)
        let col = |i: usize| (i / (per * ky as usize)) as i64;
        let sel_a: Vec<bool> = (0..tris.len()).map(|i| pick[i] && col(i) < cut).collect();
        let sel_b: Vec<bool> = (0..tris.len()).map(|i| pick[i] && col(i) >= cut).collect();
        let simp = rng.chance(3, 4);
        let (a, b) = (group(rings(&tris, &sel_a), simp), group(rings(&tris, &sel_b), simp));
        if a.is_empty() || b.is_empty() {
            continue;
        }
        let t = rng.below(8) as u32;
        let tf = |polys: Vec<(Vec<P>, Vec<Vec<P>>)>| -> Vec<(Vec<P>, Vec<Vec<P>>)> {
            let flip = matches!(t, 1 | 2 | 4 | 7);
            polys
                .into_iter()
                .map(|(e, hs)| {
                    let mut e2: Vec<P> = e.iter().map(|q| sym(t, *q)).collect();
                    let mut h2: Vec<Vec<P>> = hs.iter().map(|h| h.iter().map(|q| sym(t, *q)).collect()).collect();
                    if flip {
                        e2.reverse();
                        for h in h2.iter_mut() {
                            h.reverse();
                        }
                    }
                    (e2, h2)
                })
                .collect()
        };
        return (tf(a), tf(b));
    }
}

/// family "tshare": a vertex of one part touching the interior of an edge that is SHARED (collinear,
/// overlapping) between the two operands. X = a rectangle R with a long side E; a small triangle T whose
/// apex lies in the interior of E from outside R - T is a second part of X (then two parts of one operand
/// touch vertex-on-edge) or a part of Y; Y = a rectangle with one side on the line of E, overlapping E in
/// part, in full or beyond an end (on the side of E where it does not overlap a part of its own operand),
/// sometimes with a second rectangle. Edges at multiples of 45 degrees: every meeting point is a lattice
/// point. One of the 8 lattice symmetries is applied, so E is horizontal or vertical, the touch comes from
/// below, above, the left or the right, and either sweep orientation occurs.
pub fn tshare_pair(rng: &mut Rng) -> (Vec<(Vec<P>, Vec<Vec<P>>)>, Vec<(Vec<P>, Vec<Vec<P>>)>) {
    loop {
        let (l, h) = (rng.range(4, 10), rng.range(1, 4));
        let rect = |x0: i64, y0: i64, x1: i64, y1: i64| -> Vec<P> { vec![(x0, y0), (x1, y0), (x1, y1), (x0, y1)] };
        let r = rect(0, 0, l, h); // E = its bottom side, y = 0
        let p = rng.range(1, l - 1);
        let k = rng.range(1, 3);
        // apex (p, 0), body below E
        let t: Vec<P> = match rng.below(4) {
            0 => vec![(p, 0), (p - k, -k), (p + k, -k)],
            1 => vec![(p, 0), (p, -k), (p + k, -k)],
            2 => vec![(p, 0), (p - k, -k), (p, -k)],
            _ => vec![(p, 0), (p - k, -2 * k), (p + k, -2 * k)],
        };
        if area2(&t) <= 0 {
            continue;
        }
        let t_in_x = rng.chance(2, 3);
        let (s0, s1) = (rng.range(-2, l - 1), rng.range(1, l + 2));
        if s0 >= s1 || s1 <= 0 || s0 >= l {
            continue;
        }
        let kk = rng.range(1, 4);
        // Y's rectangle on the line of E: below it (it may overlap T when T belongs to X), or above it (inside R)
        let below = if t_in_x { rng.chance(1, 2) } else { false };
        let yr = if below { rect(s0, -kk, s1, 0) } else { rect(s0, 0, s1, kk) };
        let mut x = vec![(r, vec![])];
        let mut y = vec![(yr, vec![])];
        if t_in_x {
            x.push((t, vec![]));
        } else {
            y.push((t, vec![]));
        }
        if rng.chance(1, 3) {
            // a second rectangle of Y further along the line of E, beyond R (disjoint from Y's first one)
            let g = rng.range(1, 2);
            let x0 = s1.max(l) + g;
            y.push((rect(x0, -1, x0 + 2, 1), vec![]));
        }
        let tsym = rng.below(8) as u32;
        let tf = |polys: Vec<(Vec<P>, Vec<Vec<P>>)>| -> Vec<(Vec<P>, Vec<Vec<P>>)> {
            polys
                .into_iter()
                .map(|(e, hs)| {
                    // doubled: the edges of slope 2 of the steep triangle meet the lattice lines of the rectangles in lattice points
                    let mut e2: Vec<P> = e.iter().map(|q| sym(tsym, (2 * q.0, 2 * q.1))).collect();
                    if area2(&e2) < 0 {
                        e2.reverse();
                    }
                    (e2, hs)
                })
                .collect()
        };
        return (tf(x), tf(y));
    }
}

/// scale two simple polygons by the least common denominator of all their pairwise meeting points
/// (None if that needs more than the 2^12 domain allows)
fn scale_to_integral(a: &[P], b: &[P], extent: i64) -> Option<(Vec<P>, Vec<P>)> {
    let mut l: i64 = 1;
    for i in 0..a.len() {
        for j in 0..b.len() {
            if let Some(d) = seg_cross_den(a[i], a[(i + 1) % a.len()], b[j], b[(j + 1) % b.len()]) {
                l = l / gcd(l, d) * d;
                if l > 600 {
                    return None;
                }
            }
        }
    }
    if l * 2 * extent > 4000 {
        return None;
    }
    let sc = |r: &[P]| -> Vec<P> { r.iter().map(|p| (p.0 * l, p.1 * l)).collect() };
    Some((sc(a), sc(b)))
}

/// family "hang": a compact polygon A and a SLIVER B that starts outside A's bounding box on one side
/// (two of its vertices strictly beyond that side, one of the two edges leaving the outer vertex short
/// and steep, the other long) and reaches into or through the box: edges of one operand that lie
/// completely beyond the other's box while their neighbours cross it. Any of the 8 lattice symmetries
/// is applied, so the sliver hangs in from above, below, the left or the right; general slopes, scaled
/// to integral meeting points like `lat`.
pub fn hang_pair(rng: &mut Rng) -> (Vec<(Vec<P>, Vec<Vec<P>>)>, Vec<(Vec<P>, Vec<Vec<P>>)>) {
    loop {
        let (w, h) = (rng.range(2, 6), rng.range(1, 4));
        // A inside [0, w] x [0, h]: a rectangle, a right triangle, or a quadrilateral with its top edge on y = h
        let a: Vec<P> = match rng.below(4) {
            0 => vec![(0, 0), (w, 0), (w, h), (0, h)],
            1 => vec![(0, 0), (w, 0), (rng.range(0, w), h)],
            2 => vec![(0, 0), (w, 0), (w, rng.range(1, h)), (rng.range(0, w - 1), h)],
            _ => vec![(rng.range(0, w - 1), 0), (w, rng.range(0, h - 1)), (rng.range(1, w), h), (0, rng.range(1, h))],
        };
        if area2(&a) <= 0 || (0..a.len()).any(|i| cross(sub(a[(i + 1) % a.len()], a[i]), sub(a[(i + 2) % a.len()], a[(i + 1) % a.len()])) <= 0) {
            continue;
        }
        // B: outer vertex P and near vertex Q1 strictly above y = h, far vertex Q2 at or below the box's top
        // (the long edge may also pass BESIDE the box, under one of its lower corners, without touching A at all:
        //  then a vertex of A lies directly above it while everything else of B near that place is beyond the box)
        let p = (rng.range(-4, w + 4), h + rng.range(2, 6));
        let q1 = (p.0 + rng.range(-2, 2), h + rng.range(1, p.1 - h));
        let q2 = (rng.range(-3, w + 3), rng.range(-4, h - 1));
        let mut b = vec![p, q1, q2];
        if rng.chance(1, 3) {
            b.push((q2.0 + rng.range(1, 2), q2.1 + rng.range(0, 1)));
        }
        if rng.chance(1, 2) {
            // CORNER PASS: the long edge runs from the upper left, above the box, down to the lower right and passes g units
            // UNDER the lower left corner (0, 0) of A's box without touching A; the short edge leaves the outer vertex more
            // steeply and stays above the box. Nothing of B lies between the long edge and the corner, so the corner's edges
            // find that edge directly below them while the short edge is completely beyond the box.
            let (u, v, g) = (rng.range(1, 3), rng.range(1, 4), rng.range(1, 2));
            let k = (h + 2 + g + v - 1) / v + rng.range(0, 1); // k * v - g >= h + 2
            let m = rng.range(1, 3);
            let pp = (-k * u, k * v - g);
            let qq2 = (m * u, -g - m * v);
            // steeper than v / u, ending at least one unit above the box
            let d = (v + u) / u + rng.range(0, 1);
            let qq1 = (pp.0 + 1, pp.1 - d);
            if qq1.1 <= h {
                continue;
            }
            b = vec![pp, qq1, qq2];
        }
        if area2(&b) < 0 {
            b.reverse();
        }
        let m = b.len();
        let simple = area2(&b) > 0
            && (0..m).all(|i| cross(sub(b[(i + 1) % m], b[i]), sub(b[(i + 2) % m], b[(i + 1) % m])) != 0)
            && (m == 3 || {
                let o = |p: P, q: P, r: P| cross(sub(q, p), sub(r, p)).signum();
                let x = |a1: P, a2: P, b1: P, b2: P| o(a1, a2, b1) * o(a1, a2, b2) <= 0 && o(b1, b2, a1) * o(b1, b2, a2) <= 0;
                !x(b[0], b[1], b[2], b[3]) && !x(b[1], b[2], b[3], b[0])
            });
        if !simple {
            continue;
        }
        let (a, b) = match scale_to_integral(&a, &b, w.max(h) + 8) {
            Some(x) => x,
            None => continue,
        };
        let t = rng.below(8) as u32;
        let tf = |r: &[P]| -> Vec<P> {
            let mut v: Vec<P> = r.iter().map(|q| sym(t, *q)).collect();
            if area2(&v) < 0 {
                v.reverse();
            }
            v
        };
        return (vec![(tf(&a), vec![])], vec![(tf(&b), vec![])]);
    }
}

// ------------------------------------------------------------------------------------------
// family "fan": two triangles that touch only in a common apex O, with edges OP and OQ in
// ADJACENT FAREY DIRECTIONS (cross(P-O, Q-O) = 1 with |P-O|, |Q-O| in the thousands): the
// thinnest wedge the integer domain can express. No intersection point has to be computed; the
// orientation tests decide everything, and in f32 every product involved rounds.
fn egcd(a: i64, b: i64) -> (i64, i64, i64) {
    if b == 0 {
        (a, 1, 0)
    } else {
        let (g, x, y) = egcd(b, a % b);
        (g, y, x - (a / b) * y)
    }
}
pub fn fan_pair(rng: &mut Rng) -> (Vec<(Vec<P>, Vec<Vec<P>>)>, Vec<(Vec<P>, Vec<Vec<P>>)>) {
    loop {
        let (a, b) = (rng.range(900, 7700), rng.range(900, 7700));
        let (g, x, y) = egcd(a, b);
        if g != 1 {
            continue;
        }
        // a*d - b*c = 1  with (c, d) = (-y, x) + t*(a, b)
        let (mut c, mut d) = (-y, x);
        let t = if c < 0 || d < 0 { 1 + (-c.min(d)).max(0) / a.min(b) } else { 0 };
        c += t * a;
        d += t * b;
        if a * d - b * c != 1 || c <= 0 || d <= 0 || c > 7800 || d > 7800 {
            continue;
        }
        if 3900 - a.max(c) - 60 < -3900 || 3900 - b.max(d) - 60 < -3850 {
            continue;
        }
        let o = (rng.range(-3900, 3900 - a.max(c) - 60), rng.range(-3850, 3900 - b.max(d) - 60));
        let p = (o.0 + a, o.1 + b);
        let q = (o.0 + c, o.1 + d);
        let below = vec![o, (p.0, -3990), p];
        let above = vec![o, q, (o.0 + rng.range(1, 40), 3990)];
        if area2(&below) <= 0 || area2(&above) <= 0 {
            continue;
        }
        return (vec![(below, vec![])], vec![(above, vec![])]);
    }
}

// ------------------------------------------------------------------------------------------
// families beyond the 2^12 domain (coordinates up to 2^28): operands that meet in at most one
// common vertex BY CONSTRUCTION (checked here in exact i128 arithmetic), presented
// counter-clockwise. TLC judges them with arithmetic-free laws only.
fn farey_neighbour(a: i64, b: i64) -> Option<(i64, i64)> {
    let (g, x, y) = egcd(a, b);
    if g != 1 {
        return None;
    }
    let (mut c, mut d) = (-y, x);
    while c <= 0 || d <= 0 {
        c += a;
        d += b;
    }
    if (a as i128) * (d as i128) - (b as i128) * (c as i128) != 1 {
        return None;
    }
    Some((c, d))
}
/// two triangles sharing only the apex O, edges OP, OQ in adjacent Farey directions; `bits`:
/// magnitude of the coordinate differences (24: every subtraction rounds in f32)
pub fn bigfan_pair(rng: &mut Rng, bits: u32) -> (Vec<(Vec<P>, Vec<Vec<P>>)>, Vec<(Vec<P>, Vec<Vec<P>>)>) {
    let m: i64 = 1 << bits;
    let lim = m - 1;
    loop {
        // coordinates stay below 2^bits in magnitude, coordinate DIFFERENCES reach 2^(bits+1)
        let o = (-rng.range(m / 8, lim), -rng.range(m / 8, lim));
        let (a, b) = (rng.range(m / 4, lim - o.0), rng.range(m / 4, lim - o.1));
        let (c, d) = match farey_neighbour(a, b) {
            Some(v) => v,
            None => continue,
        };
        let p = (o.0 + a, o.1 + b);
        let q = (o.0 + c, o.1 + d);
        if p.0.abs() > lim || p.1.abs() > lim || q.0.abs() > lim || q.1.abs() > lim {
            continue;
        }
        let below = vec![o, (p.0, -lim), p];
        let above = vec![o, q, (o.0 + rng.range(1, 2000).min(lim - o.0), lim)];
        let a2 = |r: &Vec<P>| -> i128 { (0..3).map(|i| (r[i].0 as i128) * (r[(i + 1) % 3].1 as i128) - (r[i].1 as i128) * (r[(i + 1) % 3].0 as i128)).sum() };
        if a2(&below) <= 0 || a2(&above) <= 0 {
            continue;
        }
        return (vec![(below, vec![])], vec![(above, vec![])]);
    }
}
/// a sliver triangle (two long edges from O in adjacent Farey directions) and a small square
/// well above it (disjoint; the boxes overlap)
pub fn bigsliver_pair(rng: &mut Rng, bits: u32) -> (Vec<(Vec<P>, Vec<Vec<P>>)>, Vec<(Vec<P>, Vec<Vec<P>>)>) {
    let m: i64 = 1 << bits;
    loop {
        let (a, b) = (rng.range(m / 2, m - 1), rng.range(m / 2, m - 1));
        let (c, d) = match farey_neighbour(a, b) {
            Some(v) => v,
            None => continue,
        };
        if c >= m || d >= m || c < m / 4 || d < m / 4 {
            continue;
        }
        // O = origin; P = (a,b), Q = (c,d), cross(P,Q) = 1: triangle O, P, Q is counter-clockwise and has area 1/2
        let t = vec![(0, 0), (a, b), (c, d)];
        // a square strictly above the sliver: above both P and Q in y at an x inside the sliver's x-range
        let sx = rng.range(m / 16, m / 8);
        let slope_top = (b.max(d) as i128 * sx as i128 / (a.min(c) as i128)) as i64; // y of the steeper long edge at sx, rounded down
        let sy = slope_top + rng.range(2000, 9000);
        let w = rng.range(100, 2000);
        if sy + w >= m {
            continue;
        }
        let sq = vec![(sx, sy), (sx + w, sy), (sx + w, sy + w), (sx, sy + w)];
        return (vec![(t, vec![])], vec![(sq, vec![])]);
    }
}

/// family "tfan": a T-touch at the thinnest angle the 2^13 domain can express. A = triangle with
/// the edge C-u .. C+u on top (body below it), B = triangle C, C+v, Q above that edge, with u, v in
/// adjacent Farey directions (|u|, |v| ~ 3000..4000, angle ~ 1/(|u||v|) < 1e-7 rad): the vertex C of B
/// lies exactly in the interior of A's edge; nothing else meets.
pub fn tfan_pair(rng: &mut Rng) -> (Vec<(Vec<P>, Vec<Vec<P>>)>, Vec<(Vec<P>, Vec<Vec<P>>)>) {
    loop {
        let (a, b) = if rng.chance(2, 3) { (rng.range(7000, 8080), rng.range(7000, 8080)) } else { (rng.range(2500, 5700), rng.range(600, 5700)) };
        let (c, d) = match farey_neighbour(a, b) {
            Some(v) => v,
            None => continue,
        };
        if c > 8080 || d > 8080 || c < 300 || (a > 6000 && (c < 6000 || d < 6000)) {
            continue;
        }
        let cx = rng.range(-100, 100);
        let cy = rng.range(-100, 100);
        let ctr = (cx, cy);
        let l = (ctr.0 - a, ctr.1 - b);
        let r = (ctr.0 + a, ctr.1 + b);
        let pa = (r.0 - rng.range(0, 500), -7900);
        let ta = vec![l, pa, r]; // counter-clockwise: body below the edge l..r
        let q = (ctr.0 + rng.range(-200, 200), 7900);
        let tb = vec![ctr, (ctr.0 + c, ctr.1 + d), q];
        if area2(&ta) <= 0 || area2(&tb) <= 0 {
            continue;
        }
        return (vec![(ta, vec![])], vec![(tb, vec![])]);
    }
}

/// family "pinch": many rings through ONE vertex V. Rays leave V in distinct directions (all to the
/// right of V, or all around it); the wedge between two consecutive rays is a triangle
/// (V, P_j, P_j+1), runs of adjacent selected wedges are merged into one radially monotone ring.
/// Every operand drawn from one context uses the same rays and the same points P_j, so operands
/// meet only in V, along common ray segments and in common chain edges: every meeting point is a
/// lattice point. Operand shapes: the selected wedges as separate polygons (n rings whose
/// leftmost vertex is V when the rays point right), the same wedges as HOLES of an enclosing
/// polygon (V inside it, or V a vertex on its left side), or a rectangle covering everything.
pub fn pinch_set(rng: &mut Rng, n: usize) -> Vec<Vec<(Vec<P>, Vec<Vec<P>>)>> {
    loop {
        // 0: all rays to the right of V, 1: all rays above V (then a base rectangle whose top edge
        // passes THROUGH V may join an operand: V is a T-touch on the edge directly below the fan),
        // 2: rays all around V
        let mode = *rng.pick(&[0u32, 0, 1, 1, 2]);
        let right_only = mode != 2; // "linear" fan: wedges between consecutive rays only
        let k = rng.range(4, 10) as usize;
        let v = (rng.range(-1200, 1200), rng.range(-1200, 1200));
        let mut dirs: Vec<P> = vec![];
        let mut tries = 0;
        while dirs.len() < k && tries < 1000 {
            tries += 1;
            let d = match mode {
                0 => (rng.range(1, 12), rng.range(-12, 12)),
                1 => (rng.range(-12, 12), rng.range(1, 12)),
                _ => (rng.range(-12, 12), rng.range(-12, 12)),
            };
            if d == (0, 0) || dirs.iter().any(|e| cross(*e, d) == 0 && dot(*e, d) > 0) {
                continue;
            }
            dirs.push(d);
        }
        if dirs.len() < k {
            continue;
        }
        if right_only {
            dirs.sort_by(|a, b| 0.cmp(&cross(*a, *b)));
        } else {
            let half = |d: &P| if d.1 > 0 || (d.1 == 0 && d.0 > 0) { 0 } else { 1 };
            dirs.sort_by(|a, b| half(a).cmp(&half(b)).then(0.cmp(&cross(*a, *b))));
        }
        let pts: Vec<P> = dirs.iter().map(|d| { let t = rng.range(1, 100); (v.0 + t * d.0, v.1 + t * d.1) }).collect();
        // wedge j lies between ray j and ray j+1 (cyclically when the rays go all around)
        let nw = if right_only { k - 1 } else { k };
        let usable: Vec<bool> = (0..nw).map(|j| cross(dirs[j], dirs[(j + 1) % k]) > 0).collect();
        if usable.iter().filter(|u| **u).count() < 3 {
            continue;
        }
        let (x1, h) = (v.0 + 1300, 1300);
        let (bl, br) = (rng.range(1, 900), rng.range(1, 900));
        let base = (rect_ring(v.0 - bl, v.1 - rng.range(1, 900), v.0 + br, v.1, true), vec![]);
        // a second base for ANOTHER operand: its top edge coincides with the first one's (same left
        // end point half of the time), so V touches the interior of a stretch shared by both operands
        let bl2 = if rng.chance(1, 2) { bl } else { rng.range(1, 900) };
        let base2 = (rect_ring(v.0 - bl2, v.1 - rng.range(1, 900), v.0 + if rng.chance(1, 2) { br } else { rng.range(1, 900) }, v.1, true), vec![]);
        let mut base_used = false;
        let mut base2_used = false;
        let mut out = vec![];
        for _ in 0..n {
            let shape = if mode == 1 { rng.below(6) } else { rng.below(10) }; // above-V fans: parts only (no enclosing polygon)
            if shape == 0 {
                let m = rng.range(1, 40);
                out.push(vec![(rect_ring(v.0 - 1300 - m, v.1 - h - m, x1 + m, v.1 + h + m, true), vec![])]);
                continue;
            }
            let alt = rng.chance(1, 2);
            let par = rng.below(2) as usize;
            let mut sel: Vec<bool> = (0..nw).map(|j| usable[j] && if alt { rng.chance(if j % 2 == par { 9 } else { 1 }, 10) } else { rng.chance(1, 2) }).collect();
            if !right_only && sel.iter().all(|s| *s) {
                sel[0] = false;
            }
            if !right_only && sel[nw - 1] && sel[0] {
                // rotate so that no run wraps around the end of the list
                sel[rng.chance(1, 2) as usize * (nw - 1)] = false;
            }
            // runs of adjacent selected wedges
            let mut rings: Vec<Vec<P>> = vec![];
            let mut j = 0;
            while j < nw {
                if !sel[j] {
                    j += 1;
                    continue;
                }
                let mut m = j;
                while m + 1 < nw && sel[m + 1] {
                    m += 1;
                }
                let mut ring = vec![v];
                for i in j..=m + 1 {
                    ring.push(pts[i % k]);
                }
                rings.push(ring);
                j = m + 1;
            }
            if rings.is_empty() || rings.iter().any(|r| area2(r) <= 0) {
                out.push(vec![(rect_ring(v.0 - 1300, v.1 - h, x1, v.1 + h, true), vec![])]);
                continue;
            }
            if shape <= 5 {
                let mut parts: Vec<(Vec<P>, Vec<Vec<P>>)> = rings.into_iter().map(|r| (r, vec![])).collect();
                if mode == 1 && !base_used && rng.chance(1, 2) {
                    parts.push(base.clone()); // touches the fan in V only; V is interior to its top edge
                    base_used = true;
                } else if mode == 1 && base_used && !base2_used && rng.chance(2, 3) {
                    parts.push(base2.clone());
                    base2_used = true;
                }
                out.push(parts);
            } else {
                let holes: Vec<Vec<P>> = rings.into_iter().map(|mut r| { r.reverse(); r }).collect();
                let ext = if mode == 0 && shape <= 7 {
                    vec![v, (v.0, v.1 - h), (x1, v.1 - h), (x1, v.1 + h), (v.0, v.1 + h)]
                } else if mode == 0 {
                    vec![(v.0 - 7, v.1), (v.0, v.1 - h), (x1, v.1 - h), (x1, v.1 + h), (v.0, v.1 + h)]
                } else {
                    rect_ring(v.0 - 1300, v.1 - h, x1, v.1 + h, true)
                };
                out.push(vec![(ext, holes)]);
            }
        }
        return out;
    }
}

/// family "holefill": operands nested inside one common outer rectangle and interacting with its
/// holes. The outer box is cut into 5x5 blocks (so that grown holes of neighbouring blocks stay apart); some blocks carry a hole (1..2 cells wide, at
/// offset 1 inside the block). Operand shapes: the outer box with all / some / none of the holes;
/// a set of rectangles that exactly fill, overfill (grown by one cell) or sit inside holes; an
/// inner rectangle of whole blocks. Unions and intersections of such operands have the same outer
/// ring as one operand and a sub-list of its holes - results that coincide ring by ring with an
/// operand when fed back.
pub fn holefill_set(rng: &mut Rng, n: usize) -> Vec<Vec<(Vec<P>, Vec<Vec<P>>)>> {
    let (bx, by) = (rng.range(2, 3), rng.range(1, 3));
    let (w, h) = (5 * bx, 5 * by);
    let o = (rng.range(-20, 20), rng.range(-20, 20));
    let mut holes: Vec<(i64, i64, i64, i64)> = vec![];
    for i in 0..bx {
        for j in 0..by {
            if rng.chance(3, 5) {
                let (hw, hh) = (rng.range(1, 2), rng.range(1, 2));
                let (x0, y0) = (o.0 + 5 * i + 1, o.1 + 5 * j + 1);
                holes.push((x0, y0, x0 + hw, y0 + hh));
            }
        }
    }
    let outer = rect_ring(o.0, o.1, o.0 + w, o.1 + h, true);
    let hole_ring = |r: &(i64, i64, i64, i64)| rect_ring(r.0, r.1, r.2, r.3, false);
    let mut out = vec![];
    for _ in 0..n {
        let shape = rng.below(8);
        if shape <= 2 || holes.is_empty() {
            // the outer box with a random subset of the holes (all with probability 1/2)
            let all = rng.chance(1, 2);
            let hs: Vec<Vec<P>> = holes.iter().filter(|_| all || rng.chance(1, 2)).map(hole_ring).collect();
            out.push(vec![(outer.clone(), hs)]);
        } else if shape <= 5 {
            // rectangles in / on / over holes
            let mut parts = vec![];
            for r in &holes {
                match rng.below(4) {
                    0 => parts.push((rect_ring(r.0, r.1, r.2, r.3, true), vec![])),
                    1 => parts.push((rect_ring(r.0 - 1, r.1 - 1, r.2 + 1, r.3 + 1, true), vec![])),
                    2 if r.2 - r.0 == 2 => parts.push((rect_ring(r.0, r.1, r.0 + 1, r.3, true), vec![])),
                    _ => {}
                }
            }
            if parts.is_empty() {
                let r = holes[0];
                parts.push((rect_ring(r.0, r.1, r.2, r.3, true), vec![]));
            }
            out.push(parts);
        } else {
            // an inner rectangle of whole blocks (with the holes inside it, or without)
            let (i0, j0) = (rng.range(0, bx - 1), rng.range(0, by - 1));
            let (i1, j1) = (rng.range(i0 + 1, bx), rng.range(j0 + 1, by));
            let r = (o.0 + 5 * i0, o.1 + 5 * j0, o.0 + 5 * i1, o.1 + 5 * j1);
            let inside: Vec<Vec<P>> = holes.iter().filter(|q| q.0 > r.0 && q.2 < r.2 && q.1 > r.1 && q.3 < r.3).filter(|_| rng.chance(1, 2)).map(hole_ring).collect();
            out.push(vec![(rect_ring(r.0, r.1, r.2, r.3, true), inside)]);
        }
    }
    out
}

/// family "teeth": two interlocking histograms in one box. A = the region below a random step
/// function h (columns of width 1..3), B = the region above another step function g on the same
/// columns, hanging from the top. Where g > h there is a gap, where g = h the operands share a
/// boundary segment, where g < h they overlap. The bounding boxes always overlap almost
/// completely although the operands may be disjoint: nothing can be decided from the boxes, and
/// edges of one operand lie to the left of, below and above the other's in every arrangement.
pub fn teeth_set(rng: &mut Rng, n: usize) -> Vec<Vec<(Vec<P>, Vec<Vec<P>>)>> {
    let width = rng.range(6, 14);
    let top = rng.range(6, 12);
    let o = (rng.range(-30, 30), rng.range(-30, 30));
    let mut out = vec![];
    let mut profile: HashMap<i64, i64> = HashMap::new(); // height of the first operand over [x, x+1]
    for i in 0..n {
        let from_top = i % 2 == 1;
        // each operand has its own columns inside its own sub-range of the common span, so either
        // may reach further left / right and step edges of one start beside the other's box
        let (x0, x1) = if rng.chance(1, 3) { (0, width) } else { let a = rng.range(0, width - 2); (a, rng.range(a + 2, width)) };
        let mut xs = vec![o.0 + x0];
        while *xs.last().unwrap() < o.0 + x1 {
            let last = *xs.last().unwrap();
            xs.push((last + rng.range(1, 4)).min(o.0 + x1));
        }
        let cols = xs.len() - 1;
        // two thirds of the hanging operands follow the first operand's profile from above (gap
        // 0, 1 or 2 per column: interlocking teeth that touch or stay apart); the rest is random
        let follow = from_top && !profile.is_empty() && rng.chance(2, 3);
        let hs: Vec<i64> = (0..cols)
            .map(|c| {
                if follow {
                    let below = (xs[c]..xs[c + 1]).map(|x| profile.get(&x).cloned().unwrap_or(0)).max().unwrap_or(0);
                    (below + rng.range(0, 2)).clamp(1, top - 1)
                } else if from_top {
                    rng.range(2, top - 1)
                } else {
                    rng.range(1, top - 2)
                }
            })
            .collect();
        if i == 0 {
            for c in 0..cols {
                for x in xs[c]..xs[c + 1] {
                    profile.insert(x, hs[c]);
                }
            }
        }
        let keep_collinear = rng.chance(1, 2);
        let base_y = if from_top { o.1 + top } else { o.1 };
        let mut r: Vec<P> = vec![];
        if !from_top {
            for c in 0..=cols {
                if keep_collinear || c == 0 || c == cols {
                    r.push((xs[c], base_y));
                }
            }
            for c in (0..cols).rev() {
                r.push((xs[c + 1], o.1 + hs[c]));
                r.push((xs[c], o.1 + hs[c]));
            }
        } else {
            for c in (0..=cols).rev() {
                if keep_collinear || c == 0 || c == cols {
                    r.push((xs[c], base_y));
                }
            }
            for c in 0..cols {
                r.push((xs[c], o.1 + hs[c]));
                r.push((xs[c + 1], o.1 + hs[c]));
            }
        }
        // equal neighbouring heights: drop the repeated point, and (always) the collinear vertex
        // between two steps of one height, so that step edges can be long
        let d = dedup_ring(&r);
        let m = d.len();
        let ring: Vec<P> = (0..m)
            .filter(|&k| {
                let (a, b, c) = (d[(k + m - 1) % m], d[k], d[(k + 1) % m]);
                let collinear = cross(sub(b, a), sub(c, b)) == 0;
                !collinear || (keep_collinear && b.1 == base_y)
            })
            .map(|k| d[k])
            .collect();
        out.push(vec![(ring, vec![])]);
    }
    out
}
fn dedup_ring(r: &[P]) -> Vec<P> {
    let mut v: Vec<P> = vec![];
    for p in r {
        if v.last() != Some(p) {
            v.push(*p);
        }
    }
    while v.len() > 1 && v.first() == v.last() {
        v.pop();
    }
    v
}

/// family "combx": two combs crossing each other - A with T horizontal teeth, B the same comb
/// mirrored at the diagonal and shifted so that no coordinate is shared: ~8T edges, 4T^2 proper
/// crossings. The number of sweep events per input edge grows with T (it is what the quadratic
/// event bound of C03 is about), unlike in every other family. Axis-parallel integers: exact.
pub fn combx_pair(rng: &mut Rng) -> (Vec<(Vec<P>, Vec<Vec<P>>)>, Vec<(Vec<P>, Vec<Vec<P>>)>) {
    let t = rng.range(17, 22);
    let l = 4 * t + 6;
    let o = (rng.range(-40, 40), rng.range(-40, 40));
    let mut a: Vec<P> = vec![(0, 0)];
    for i in 0..t {
        a.push((l, 4 * i));
        a.push((l, 4 * i + 2));
        if i + 1 < t {
            a.push((2, 4 * i + 2));
            a.push((2, 4 * i + 4));
        }
    }
    a.push((0, 4 * (t - 1) + 2));
    let b: Vec<P> = a.iter().rev().map(|p| (p.1 + 3, p.0 - 3)).collect(); // mirrored: orientation restored by reversing
    let sh = |r: Vec<P>| -> Vec<P> { r.into_iter().map(|p| (p.0 + o.0, p.1 + o.1)).collect() };
    (vec![(sh(a), vec![])], vec![(sh(b), vec![])])
}

/// family "onion": nested rectangles r_0 > r_1 > ... > r_k; an operand is a set of the annuli
/// between consecutive rectangles (neighbouring selected annuli merge), i.e. polygons with a hole,
/// islands inside holes, islands inside holes of islands ... - nesting depth up to k/2 in operands
/// and results. Operands of one context share the rectangles (all boundaries coincide or are
/// nested); with probability 1/2 the second onion is shifted so that the two cross properly.
pub fn onion_set(rng: &mut Rng, n: usize) -> Vec<Vec<(Vec<P>, Vec<Vec<P>>)>> {
    let k = rng.range(3, 7) as usize; // rectangles r_0 .. r_k
    let o = (rng.range(-20, 20), rng.range(-20, 20));
    let mut rects: Vec<(i64, i64, i64, i64)> = vec![];
    let (mut x0, mut y0, mut x1, mut y1) = (0i64, 0i64, 0i64, 0i64);
    // build from the inside out so that every gap is at least 1
    let (w, h) = (rng.range(1, 3), rng.range(1, 3));
    x1 += w;
    y1 += h;
    rects.push((x0, y0, x1, y1));
    for _ in 0..k {
        x0 -= rng.range(1, 3);
        y0 -= rng.range(1, 3);
        x1 += rng.range(1, 3);
        y1 += rng.range(1, 3);
        rects.push((x0, y0, x1, y1));
    }
    rects.reverse(); // r_0 outermost
    let mut out = vec![];
    for i in 0..n {
        let shift = if i > 0 && rng.chance(1, 2) { (rng.range(-4, 4), rng.range(-4, 4)) } else { (0, 0) };
        // inside[j]: the region between r_j and r_(j+1) (the innermost rectangle itself for j = k) belongs to the operand
        let mut inside: Vec<bool> = (0..=k).map(|_| rng.chance(1, 2)).collect();
        if !inside.iter().any(|b| *b) {
            inside[0] = true;
        }
        let mut bounds: Vec<usize> = vec![];
        let mut prev = false;
        for j in 0..=k {
            if inside[j] != prev {
                bounds.push(j);
            }
            prev = inside[j];
        }
        let ring = |j: usize, ccw: bool| {
            let r = rects[j];
            rect_ring(r.0 + o.0 + shift.0, r.1 + o.1 + shift.1, r.2 + o.0 + shift.0, r.3 + o.1 + shift.1, ccw)
        };
        let mut polys = vec![];
        let mut b = 0;
        while b < bounds.len() {
            let holes = if b + 1 < bounds.len() { vec![ring(bounds[b + 1], false)] } else { vec![] };
            polys.push((ring(bounds[b], true), holes));
            b += 2;
        }
        out.push(polys);
    }
    out
}

/// family "lamina": a laminar family of rectangles (any two nested or disjoint, gaps >= 1) read by
/// the even-odd rule: rectangles at odd nesting depth are exterior rings, their children are their
/// holes, grandchildren are islands ... Siblings are laid out on a small grid inside their parent,
/// so holes sit above holes, islands are stacked above and beside each other inside one hole, and
/// several top-level polygons start between them. Operands of one context are independent such
/// families over the same area (they cross in lattice points), or a rectangle covering everything.
pub fn lamina_set(rng: &mut Rng, n: usize) -> Vec<Vec<(Vec<P>, Vec<Vec<P>>)>> {
    type R4 = (i64, i64, i64, i64);
    struct Node {
        r: R4,
        kids: Vec<Node>,
    }
    fn fill(r: R4, depth: u32, rng: &mut Rng) -> Vec<Node> {
        let (w, h) = (r.2 - r.0 - 2, r.3 - r.1 - 2); // interior minus a margin of 1
        if depth > 4 || w < 2 || h < 2 {
            return vec![];
        }
        let nx = if w >= 7 { rng.range(1, 3) } else if w >= 5 { rng.range(1, 2) } else { 1 };
        let ny = if h >= 7 { rng.range(1, 3) } else if h >= 5 { rng.range(1, 2) } else { 1 };
        let (cw, ch) = ((w + 1) / nx, (h + 1) / ny); // cell pitch including a gap of 1
        let mut out = vec![];
        for i in 0..nx {
            for j in 0..ny {
                if !rng.chance(if depth <= 1 { 4 } else { 3 }, 5) || cw < 2 || ch < 2 {
                    continue;
                }
                let (x0, y0) = (r.0 + 1 + i * cw, r.1 + 1 + j * ch);
                let (x1, y1) = (x0 + cw - 1, y0 + ch - 1);
                // sometimes shrink the child inside its cell
                let sx = if x1 - x0 >= 4 && rng.chance(1, 3) { 1 } else { 0 };
                let sy = if y1 - y0 >= 4 && rng.chance(1, 3) { 1 } else { 0 };
                let c = (x0 + sx, y0 + sy, x1 - sx, y1 - sy);
                if c.2 - c.0 >= 1 && c.3 - c.1 >= 1 {
                    let kids = fill(c, depth + 1, rng);
                    out.push(Node { r: c, kids });
                }
            }
        }
        out
    }
    fn emit(nodes: &[Node], exterior: bool, out: &mut Vec<(Vec<P>, Vec<Vec<P>>)>) {
        for nd in nodes {
            if exterior {
                let holes = nd.kids.iter().map(|k| rect_ring(k.r.0, k.r.1, k.r.2, k.r.3, false)).collect();
                out.push((rect_ring(nd.r.0, nd.r.1, nd.r.2, nd.r.3, true), holes));
            }
            emit(&nd.kids, !exterior, out);
        }
    }
    let o = (rng.range(-20, 20), rng.range(-20, 20));
    let (w, h) = (rng.range(9, 22), rng.range(9, 22));
    let area = (o.0, o.1, o.0 + w, o.1 + h);
    let mut res = vec![];
    for _ in 0..n {
        loop {
            if rng.chance(1, 8) {
                res.push(vec![(rect_ring(area.0 - 1, area.1 - 1, area.2 + 1, area.3 + 1, true), vec![])]);
                break;
            }
            // the whole area plays the role of an (absent) depth-0 rectangle: its children are top-level polygons
            let tops = fill((area.0 - 1, area.1 - 1, area.2 + 1, area.3 + 1), 1, rng);
            let mut polys = vec![];
            emit(&tops, true, &mut polys);
            if !polys.is_empty() {
                res.push(polys);
                break;
            }
        }
    }
    res
}
