//! Recorder for the public stages (C13..C16): fill_queue, subdivide, the two orderings,
//! possible_intersection and compute_fields, observed through the public API only.
use crate::gen::{self, IMp, P};
use crate::ops;
use crate::rng::Rng;
use crate::run::{self, Fl};
use geo_booleanop::boolean::compare_segments::compare_segments;
use geo_booleanop::boolean::fill_queue::fill_queue;
use geo_booleanop::boolean::possible_intersection::possible_intersection;
use geo_booleanop::boolean::subdivide_segments::subdivide;
use geo_booleanop::boolean::sweep_event::{EdgeType, ResultTransition, SweepEvent};
use geo_booleanop::boolean::{BoundingBox, Operation};
use geo_types::Coord;
use std::cmp::Ordering;
use std::collections::{BinaryHeap, HashMap};
use std::fmt::Write as _;
use std::rc::{Rc, Weak};

pub struct Ids<F: Fl> {
    map: HashMap<*const SweepEvent<F>, usize>,
    pub all: Vec<Rc<SweepEvent<F>>>,
}
impl<F: Fl> Ids<F> {
    pub fn new() -> Self {
        Ids { map: HashMap::new(), all: vec![] }
    }
    pub fn id(&mut self, e: &Rc<SweepEvent<F>>) -> usize {
        let p = Rc::as_ptr(e);
        if let Some(i) = self.map.get(&p) {
            return *i;
        }
        self.all.push(e.clone());
        let i = self.all.len();
        self.map.insert(p, i);
        i
    }
}

fn snap1<F: Fl>(c: F, mag: f64) -> (i64, i64) {
    // (STAGE_FRAME: stage runs in a power-of-two frame are read back in the integer frame; the factor is exact)
    let v = c.to_f64() * 2f64.powi(-STAGE_FRAME.with(|f| f.get()));
    if !v.is_finite() || v.abs() > run::COORD_CAP {
        return (run::COORD_CAP as i64, run::DEV_CAP);
    }
    let n = v.round();
    let d = ((v - n).abs() / mag / F::UNIT).ceil();
    (n as i64, if d >= run::DEV_CAP as f64 { run::DEV_CAP } else { d as i64 })
}

fn et_code(e: EdgeType) -> u8 {
    match e {
        EdgeType::Normal => 0,
        EdgeType::NonContributing => 1,
        EdgeType::SameTransition => 2,
        EdgeType::DifferentTransition => 3,
    }
}
fn rt_code(r: ResultTransition) -> u8 {
    match r {
        ResultTransition::None => 0,
        ResultTransition::InOut => 1,
        ResultTransition::OutIn => 2,
    }
}

/// event tuple: [id,x,y,dev,left,other,subject,contour_id,exterior,edge_type,in_out,other_in_out,transition,prev_in_result]
pub fn ev_json<F: Fl>(ids: &mut Ids<F>, e: &Rc<SweepEvent<F>>, mag: f64) -> String {
    let id = ids.id(e);
    let (x, dx) = snap1(e.point.x, mag);
    let (y, dy) = snap1(e.point.y, mag);
    let other = e.get_other_event().map(|o| ids.id(&o)).unwrap_or(0);
    let pir = e.get_prev_in_result().map(|o| ids.id(&o)).unwrap_or(0);
    format!(
        "[{},{},{},{},{},{},{},{},{},{},{},{},{},{}]",
        id,
        x,
        y,
        dx.max(dy),
        e.is_left() as u8,
        other,
        e.is_subject as u8,
        e.contour_id,
        e.is_exterior_ring as u8,
        et_code(e.get_edge_type()),
        e.is_in_out() as u8,
        e.is_other_in_out() as u8,
        rt_code(e.get_result_transition()),
        pir
    )
}

fn bb_json<F: Fl>(b: &BoundingBox<F>, mag: f64) -> String {
    let v = [b.min.x, b.min.y, b.max.x, b.max.y];
    if v.iter().any(|c| !Fl::to_f64(*c).is_finite()) {
        return "[]".to_string();
    }
    let s: Vec<String> = v.iter().map(|c| format!("{}", snap1(*c, mag).0)).collect();
    // the box must be exact: report any deviation as a fifth component
    let dev = v.iter().map(|c| snap1(*c, mag).1).max().unwrap();
    format!("[{},{}]", s.join(","), dev)
}

fn ord_code(o: Ordering) -> i8 {
    match o {
        Ordering::Less => -1,
        Ordering::Equal => 0,
        Ordering::Greater => 1,
    }
}


/// compare_segments on pairs of left events whose x-extents overlap: [a, b, cmp(a,b), cmp(b,a)]
fn seg_block<F: Fl>(evs: &[Rc<SweepEvent<F>>], ids: &mut Ids<F>, rng: &mut Rng, matrix_max: usize) -> String {
    let lefts: Vec<Rc<SweepEvent<F>>> = evs.iter().filter(|e| e.is_left() && e.get_other_event().is_some()).cloned().collect();
    let mut seg = String::from("[");
    let mut first = true;
    let nl = lefts.len();
    let full = nl <= matrix_max;
    let total = if full { nl * nl } else { matrix_max * matrix_max };
    for t in 0..total {
        let (i, j) = if full { (t / nl, t % nl) } else { (rng.below(nl as u64) as usize, rng.below(nl as u64) as usize) };
        if i > j {
            continue;
        }
        let (p, q) = (&lefts[i], &lefts[j]);
        let (po, qo) = (p.get_other_event().unwrap(), q.get_other_event().unwrap());
        if p.point.x > qo.point.x || q.point.x > po.point.x {
            continue;
        }
        if !first {
            seg.push(',');
        }
        first = false;
        let _ = write!(seg, "[{},{},{},{}]", ids.id(p), ids.id(q), ord_code(compare_segments(p, q)), ord_code(compare_segments(q, p)));
    }
    seg.push(']');
    seg
}

fn mp_json(mp: &IMp) -> String {
    let g = run::to_geo::<f64>(mp, 0);
    run::json_snapped(&run::snap(&g, 0, 1.0))
}

/// One run of the public stages on (a, b, op): a JSON record (one line).
pub fn stage_run<F: Fl>(rid: u64, family: &str, seed: u64, a: &IMp, b: &IMp, op: &str, matrix_max: usize, rng: &mut Rng) -> String {
    // (NEG_ZERO: zeros of the SECOND operand - and of both, in half of those runs - are handed over as -0.0)
    let nz = NEG_ZERO.with(|z| z.get());
    let fr = STAGE_FRAME.with(|f| f.get());
    let ga = run::to_geo_nz::<F>(a, fr, if nz.0 { (true, true) } else { (false, false) });
    let gb = run::to_geo_nz::<F>(b, fr, if nz.1 { (true, true) } else { (false, false) });
    let mag = run::magnitude(&[a, b]);
    let operation = run::op_of(op);
    let inf = BoundingBox { min: Coord { x: F::infinity(), y: F::infinity() }, max: Coord { x: F::neg_infinity(), y: F::neg_infinity() } };
    let (mut sbb, mut cbb) = (inf, inf);
    let mut queue = fill_queue(&ga.0, &gb.0, &mut sbb, &mut cbb, operation);
    let mut ids: Ids<F> = Ids::new();
    // processing order of the freshly filled queue (BinaryHeap is a max-heap on the inverted order)
    let mut fq: Vec<Rc<SweepEvent<F>>> = queue.clone().into_sorted_vec();
    fq.reverse();
    let fq_ev: Vec<String> = fq.iter().map(|e| ev_json(&mut ids, e, mag)).collect();
    let mut out = String::new();
    let _ = write!(
        out,
        "{{\"rid\":{},\"family\":{},\"seed\":{},\"op\":\"{}\",\"F\":\"{}\",\"A\":{},\"B\":{},\"fq\":{{\"sbb\":{},\"cbb\":{},\"ev\":[{}]}}",
        rid,
        run::jstr(family),
        seed,
        op,
        F::NAME,
        mp_json(a),
        mp_json(b),
        bb_json(&sbb, mag),
        bb_json(&cbb, mag),
        fq_ev.join(",")
    );
    // event order: the events sorted by the library's own `cmp` (earliest first) and recorded
    // comparisons [ia, ib, cmp(a,b), cmp(b,a)] on positions of that list (small runs: all
    // pairs; otherwise a seeded sample)
    let cmp_block = |evs: &[Rc<SweepEvent<F>>], ids: &mut Ids<F>, rng: &mut Rng| -> String {
        let mut order: Vec<Rc<SweepEvent<F>>> = evs.to_vec();
        let sorted_ok = std::panic::catch_unwind(std::panic::AssertUnwindSafe(|| {
            let mut o = order.clone();
            o.sort_by(|a, b| b.cmp(a));
            o
        }));
        let consistent = sorted_ok.is_ok();
        if let Ok(o) = sorted_ok {
            order = o;
        }
        let n = order.len();
        let mut s = format!("{{\"sortok\":{},\"order\":[", consistent);
        for (k, e) in order.iter().enumerate() {
            if k > 0 {
                s.push(',');
            }
            let _ = write!(s, "{}", ids.id(e));
        }
        s.push_str("],\"pairs\":[");
        let mut first = true;
        let mut push = |i: usize, j: usize, s: &mut String| {
            if !first {
                s.push(',');
            }
            first = false;
            let _ = write!(s, "[{},{},{},{}]", i + 1, j + 1, ord_code(order[i].cmp(&order[j])), ord_code(order[j].cmp(&order[i])));
        };
        if n <= matrix_max {
            for i in 0..n {
                for j in (i + 1)..n {
                    push(i, j, &mut s);
                }
            }
        } else {
            for _ in 0..(matrix_max * matrix_max / 2) {
                let i = rng.below(n as u64) as usize;
                let j = rng.below(n as u64) as usize;
                if i != j {
                    push(i.min(j), i.max(j), &mut s);
                }
            }
            // neighbours in the order are the critical comparisons
            for i in 0..n.saturating_sub(1) {
                push(i, i + 1, &mut s);
            }
        }
        s.push_str("]}");
        s
    };
    let _ = write!(out, ",\"cmp0\":{}", cmp_block(&fq, &mut ids, rng));
    let seg0 = seg_block(&fq, &mut ids, rng, matrix_max);
    let _ = write!(out, ",\"seg0\":{}", seg0);
    // subdivision
    let n_edges = (gen::n_edges(a) + gen::n_edges(b)) as u64;
    geo_booleanop::boolean::verif::set_budget(8 * n_edges * n_edges + 64);
    let r = std::panic::catch_unwind(std::panic::AssertUnwindSafe(|| subdivide(&mut queue, &sbb, &cbb, operation)));
    let popped = geo_booleanop::boolean::verif::popped();
    geo_booleanop::boolean::verif::set_budget(u64::MAX);
    match r {
        Err(_) => {
            let _ = write!(out, ",\"sub\":{{\"outcome\":\"panic\",\"popped\":{},\"sorted\":[],\"rest\":[],\"ev\":[]}},\"cmp1\":{{\"sortok\":true,\"order\":[],\"pairs\":[]}},\"seg\":[]}}", popped);
            return out;
        }
        Ok(sorted) => {
            let mut rest: Vec<Rc<SweepEvent<F>>> = queue.clone().into_sorted_vec();
            rest.reverse();
            let sorted_ids: Vec<String> = sorted.iter().map(|e| ids.id(e).to_string()).collect();
            let rest_ids: Vec<String> = rest.iter().map(|e| ids.id(e).to_string()).collect();
            // make sure every reachable event has an id before dumping them all
            let mut k = 0;
            while k < ids.all.len() {
                let e = ids.all[k].clone();
                if let Some(o) = e.get_other_event() {
                    ids.id(&o);
                }
                if let Some(o) = e.get_prev_in_result() {
                    ids.id(&o);
                }
                k += 1;
            }
            let all: Vec<Rc<SweepEvent<F>>> = ids.all.clone();
            let evs: Vec<String> = all.iter().map(|e| ev_json(&mut ids, e, mag)).collect();
            let _ = write!(
                out,
                ",\"sub\":{{\"outcome\":\"ok\",\"popped\":{},\"sorted\":[{}],\"rest\":[{}],\"ev\":[{}]}}",
                popped,
                sorted_ids.join(","),
                rest_ids.join(","),
                evs.join(",")
            );
            let mut after: Vec<Rc<SweepEvent<F>>> = sorted.clone();
            after.extend(rest.iter().cloned());
            let _ = write!(out, ",\"cmp1\":{}", cmp_block(&after, &mut ids, rng));
            let seg = seg_block(&after, &mut ids, rng, matrix_max);
            let _ = write!(out, ",\"seg\":{}}}", seg);
        }
    }
    out
}

thread_local! {
    static NEG_ZERO: std::cell::Cell<(bool, bool)> = const { std::cell::Cell::new((false, false)) };
    /// power-of-two frame of the stage runs (0 = the integer frame): the operands are handed over scaled by 2^k (exact),
    /// every recorded coordinate is scaled back (exact) before it is snapped, so the same integer contracts judge the run
    static STAGE_FRAME: std::cell::Cell<i32> = const { std::cell::Cell::new(0) };
}

pub fn rec_stages(kind_f32: bool, fams: &[&str], count: u64, seed: u64, kmax: i64, max_edges: usize, matrix_max: usize, rid0: u64, efrom: u64, estride: u64, frames: bool) {
    let o = ops::Opts { kmax, max_edges };
    let mut rid = rid0;
    for i in 0..count {
        let fam = fams[(i as usize) % fams.len()];
        gen::ENUM_POS.store(efrom + (i / fams.len() as u64) * estride, std::sync::atomic::Ordering::SeqCst);
        let sd = seed.wrapping_mul(1_000_003).wrapping_add(i);
        let mut rng = Rng::new(sd);
        let (a, b) = loop {
            let (ca, cb) = ops::canon_pair(fam, o.kmax, &mut rng);
            let a = gen::present(&ca, gen::RANDOMISED, &mut rng);
            let b = gen::present(&cb, gen::RANDOMISED, &mut rng);
            if gen::n_edges(&a) + gen::n_edges(&b) <= o.max_edges {
                break (a, b);
            }
        };
        // one run in five hands the zeros of the operands over as -0.0 (a mirrored operand): equal points with different bits
        NEG_ZERO.with(|z| z.set(if rng.chance(1, 5) { (rng.chance(1, 2), true) } else { (false, false) }));
        if frames {
            // far from the unit scale in both directions: whole operands below the machine epsilon, or huge
            let k = if kind_f32 { rng.range(18, 30) } else { rng.range(50, 80) } as i32;
            STAGE_FRAME.with(|f| f.set(if rng.chance(2, 3) { -k } else { k }));
        }
        for (op, _) in run::OPS {
            let line = if kind_f32 {
                stage_run::<f32>(rid, fam, sd, &a, &b, op, matrix_max, &mut rng)
            } else {
                stage_run::<f64>(rid, fam, sd, &a, &b, op, matrix_max, &mut rng)
            };
            println!("{}", line);
            rid += 1;
        }
    }
}

/// Stage runs on all (strided) ordered pairs of lattice triangles.
pub fn rec_stages_tri(n: i64, l: i64, from: usize, stride: usize, matrix_max: usize, rid0: u64) {
    let tris = gen::lattice_triangles(n, l);
    let total = tris.len() * tris.len();
    let ring = |t: &[P; 3]| vec![t[0], t[1], t[2], t[0]];
    let mut rid = rid0;
    let mut i = from;
    let mut rng = Rng::new(from as u64 + 17);
    while i < total {
        let a = vec![gen::IPoly { ext: ring(&tris[i / tris.len()]), holes: vec![] }];
        let b = vec![gen::IPoly { ext: ring(&tris[i % tris.len()]), holes: vec![] }];
        for (op, _) in run::OPS {
            println!("{}", stage_run::<f64>(rid, "tri3", i as u64, &a, &b, op, matrix_max, &mut rng));
            rid += 1;
        }
        i += stride;
    }
}

// ------------------------------------------------------------------ possible_intersection

fn mk_seg<F: Fl>(p: P, q: P, subject: bool, in_out: bool, cid: u32, frame: i32) -> (Rc<SweepEvent<F>>, Rc<SweepEvent<F>>) {
    let c = |p: P| Coord { x: F::from_f64(run::frame_value(p.0 as f64, frame)), y: F::from_f64(run::frame_value(p.1 as f64, frame)) };
    // left = lexicographically smaller end point (the caller passes p < q)
    let r = SweepEvent::new_rc(cid, c(q), false, Weak::new(), subject, true);
    let l = SweepEvent::new_rc(cid, c(p), true, Rc::downgrade(&r), subject, true);
    r.set_other_event(&l);
    l.set_in_out(in_out, false);
    (l, r)
}

/// Replay of TLC-enumerated argument tuples through the real `possible_intersection`.
/// input lines: {"id":n,"a":[[x,y],[x,y]],"b":[[x,y],[x,y]],"sa":0|1,"sb":0|1,"ioa":0|1,"iob":0|1}
/// output: the same record plus what the function did.
fn snap_frame<F: Fl>(c: F, frame: i32, mag: f64) -> (i64, i64) {
    if frame == 0 {
        return snap1(c, mag);
    }
    let raw = c.to_f64();
    let n = if frame >= 1000 { (raw * (frame - 1000) as f64).round() } else { (raw * 2f64.powi(-frame)).round() };
    if !raw.is_finite() || n.abs() > run::COORD_CAP {
        return (run::COORD_CAP as i64, run::DEV_CAP);
    }
    if F::from_f64(run::frame_value(n, frame)).to_f64() == raw {
        (n as i64, 0)
    } else {
        (n as i64, 1)
    }
}

fn ev_json_frame<F: Fl>(ids: &mut Ids<F>, e: &Rc<SweepEvent<F>>, mag: f64, frame: i32) -> String {
    let id = ids.id(e);
    let (x, dx) = snap_frame(e.point.x, frame, mag);
    let (y, dy) = snap_frame(e.point.y, frame, mag);
    let other = e.get_other_event().map(|o| ids.id(&o)).unwrap_or(0);
    format!(
        "[{},{},{},{},{},{},{},{},{},{},{},{},{},{}]",
        id, x, y, dx.max(dy), e.is_left() as u8, other, e.is_subject as u8, e.contour_id, e.is_exterior_ring as u8,
        et_code(e.get_edge_type()), e.is_in_out() as u8, e.is_other_in_out() as u8, rt_code(e.get_result_transition()), 0
    )
}

/// `decoy`: 0 = the queue is empty when the step is taken; 1..4 = it already holds ONE unrelated
/// left event (a short segment leaving the point to the upper right) located at a1 / a2 (with the
/// operand and contour id of segment b) resp. b1 / b2 (with those of segment a) - what the queue of a
/// real sweep looks like when another edge of the same ring starts at a T-junction. The decoy is not
/// part of the record: `pushed` lists what the step added.
pub fn replay_pi<F: Fl>(path: &str, frame: i32, offset: i64, only_axis: bool, decoy: u32) {
    let text = std::fs::read_to_string(path).expect("pi file");
    for line in text.lines().filter(|l| !l.trim().is_empty()) {
        let v: serde_json::Value = serde_json::from_str(line).expect("json");
        let pt = |x: &serde_json::Value| (x[0].as_i64().unwrap(), x[1].as_i64().unwrap());
        let sh = |p: P| (p.0 + offset, p.1 + offset / 2);
        let (a1, a2, b1, b2) = (sh(pt(&v["a"][0])), sh(pt(&v["a"][1])), sh(pt(&v["b"][0])), sh(pt(&v["b"][1])));
        let axis = |p: P, q: P| p.0 == q.0 || p.1 == q.1;
        if only_axis && !(axis(a1, a2) && axis(b1, b2)) {
            continue;
        }
        let flag = |k: &str| v[k].as_i64().unwrap() == 1;
        let mag = [a1, a2, b1, b2].iter().map(|p| p.0.abs().max(p.1.abs())).max().unwrap().max(1) as f64;
        let (la, ra) = mk_seg::<F>(a1, a2, flag("sa"), flag("ioa"), 1, frame);
        let (lb, rb) = mk_seg::<F>(b1, b2, flag("sb"), flag("iob"), 2, frame);
        let mut q: BinaryHeap<Rc<SweepEvent<F>>> = BinaryHeap::new();
        let mut ids: Ids<F> = Ids::new();
        for e in [&la, &ra, &lb, &rb] {
            ids.id(e);
        }
        let mut decoys: Vec<Rc<SweepEvent<F>>> = vec![];
        if decoy > 0 {
            let (at, subj, cid) = match decoy {
                1 => (a1, flag("sb"), 2),
                2 => (a2, flag("sb"), 2),
                3 => (b1, flag("sa"), 1),
                _ => (b2, flag("sa"), 1),
            };
            let (dl, dr) = mk_seg::<F>(at, (at.0 + 3, at.1 + 1), subj, false, cid, frame);
            q.push(dl.clone());
            q.push(dr.clone());
            decoys.push(dl);
            decoys.push(dr);
        }
        let r = std::panic::catch_unwind(std::panic::AssertUnwindSafe(|| possible_intersection(&la, &lb, &mut q)));
        let code: i64 = match r {
            Ok(c) => c as i64,
            Err(_) => -1,
        };
        let mut pushed: Vec<Rc<SweepEvent<F>>> = q.clone().into_sorted_vec();
        pushed.reverse();
        pushed.retain(|e| !decoys.iter().any(|d| Rc::ptr_eq(d, e)));
        let pushed_ids: Vec<String> = pushed.iter().map(|e| ids.id(e).to_string()).collect();
        let all = ids.all.clone();
        let evs: Vec<String> = all.iter().map(|e| ev_json_frame(&mut ids, e, mag, frame)).collect();
        // bit-equality of the points of the new events
        let mut bitsets: Vec<(u64, u64)> = pushed.iter().map(|e| (e.point.x.bits(), e.point.y.bits())).collect();
        bitsets.sort();
        bitsets.dedup();
        let fv = |c: i64| F::from_f64(run::frame_value(c as f64, frame)).to_f64();
        let inb = |e: &Rc<SweepEvent<F>>, p: P, q: P| -> bool {
            let (x, y) = (e.point.x.to_f64(), e.point.y.to_f64());
            x >= fv(p.0.min(q.0)) && x <= fv(p.0.max(q.0)) && y >= fv(p.1.min(q.1)) && y <= fv(p.1.max(q.1))
        };
        let inbox = pushed.iter().all(|e| inb(e, a1, a2) && inb(e, b1, b2));
        println!(
            "{{\"id\":{},\"inbox\":{},\"F\":\"{}\",\"a\":[[{},{}],[{},{}]],\"b\":[[{},{}],[{},{}]],\"sa\":{},\"sb\":{},\"ioa\":{},\"iob\":{},\"code\":{},\"pushed\":[{}],\"npoints\":{},\"ev\":[{}]}}",
            v["id"], inbox, F::NAME, a1.0, a1.1, a2.0, a2.1, b1.0, b1.1, b2.0, b2.1, v["sa"], v["sb"], v["ioa"], v["iob"], code, pushed_ids.join(","), bitsets.len(), evs.join(",")
        );
    }
}

/// Spec -> implementation: run the real stages and the real operation on the inputs of
/// TLC-generated behaviours and write the observations in geometric form (no ids), so that they
/// can be compared with the model's behaviour step for step.
/// input lines: {"A":mp,"B":mp,"op":".."} (rings of [x,y]); output: {"sorted":[...],"out":mp,"popped":n}
pub fn replay_sweep(path: &str) {
    let text = std::fs::read_to_string(path).expect("replay file");
    for line in text.lines().filter(|l| !l.trim().is_empty()) {
        let v: serde_json::Value = serde_json::from_str(line).expect("json");
        let mp = |x: &serde_json::Value| -> IMp {
            x.as_array()
                .unwrap()
                .iter()
                .map(|p| {
                    let rings: Vec<Vec<P>> = p.as_array().unwrap().iter().map(|r| r.as_array().unwrap().iter().map(|q| (q[0].as_i64().unwrap(), q[1].as_i64().unwrap())).collect()).collect();
                    gen::IPoly { ext: rings.first().cloned().unwrap_or_default(), holes: rings.into_iter().skip(1).collect() }
                })
                .collect()
        };
        let (a, b) = (mp(&v["A"]), mp(&v["B"]));
        let op = v["op"].as_str().unwrap();
        let operation = run::op_of(op);
        let (ga, gb) = (run::to_geo::<f64>(&a, 0), run::to_geo::<f64>(&b, 0));
        let mag = run::magnitude(&[&a, &b]);
        let inf = BoundingBox { min: Coord { x: f64::INFINITY, y: f64::INFINITY }, max: Coord { x: f64::NEG_INFINITY, y: f64::NEG_INFINITY } };
        let (mut sbb, mut cbb) = (inf, inf);
        let mut queue = fill_queue(&ga.0, &gb.0, &mut sbb, &mut cbb, operation);
        let trivial = sbb.min.x > cbb.max.x || cbb.min.x > sbb.max.x || sbb.min.y > cbb.max.y || cbb.min.y > sbb.max.y;
        let mut sorted_json = String::from("[");
        let mut popped = 0;
        if !trivial {
            geo_booleanop::boolean::verif::set_budget(1 << 24);
            let r = std::panic::catch_unwind(std::panic::AssertUnwindSafe(|| subdivide(&mut queue, &sbb, &cbb, operation)));
            popped = geo_booleanop::boolean::verif::popped();
            geo_booleanop::boolean::verif::set_budget(u64::MAX);
            if let Ok(sorted) = r {
                for (k, e) in sorted.iter().enumerate() {
                    if k > 0 {
                        sorted_json.push(',');
                    }
                    let pt = |e: &Rc<SweepEvent<f64>>| (snap1(e.point.x, mag).0, snap1(e.point.y, mag).0);
                    let o = e.get_other_event().map(|o| pt(&o)).unwrap_or((0, 0));
                    let (pp, po) = match e.get_prev_in_result() {
                        Some(p) => (pt(&p), p.get_other_event().map(|o| pt(&o)).unwrap_or((0, 0))),
                        None => ((0, 0), (0, 0)),
                    };
                    let has_pir = e.get_prev_in_result().is_some() as u8;
                    let _ = write!(
                        sorted_json,
                        "[{},{},{},{},{},{},{},{},{},{},{},{},{},{},{}]",
                        pt(e).0, pt(e).1, e.is_left() as u8, e.is_subject as u8, o.0, o.1, et_code(e.get_edge_type()), e.is_in_out() as u8,
                        e.is_other_in_out() as u8, rt_code(e.get_result_transition()), has_pir, pp.0, pp.1, po.0, po.1
                    );
                }
            } else {
                sorted_json.push_str("\"panic\"");
            }
        }
        sorted_json.push(']');
        let (o, r) = run::call(&ga, &gb, operation, 'm', 'm', 1 << 24);
        let out = r.map(|m| run::json_snapped(&run::snap(&m, 0, mag))).unwrap_or_else(|| "[]".into());
        println!("{{\"op\":\"{}\",\"outcome\":\"{}\",\"popped\":{},\"trivial\":{},\"sorted\":{},\"out\":{}}}", op, o.outcome, popped, trivial, sorted_json, out);
    }
}

/// stage record for literal inputs: lines {"A":mp,"B":mp,"op":"..","F":"f32"|"f64"}
pub fn stage_inputs(path: &str, rid0: u64, matrix_max: usize, family: &str) {
    let text = std::fs::read_to_string(path).expect("file");
    let mut rid = rid0;
    for line in text.lines().filter(|l| !l.trim().is_empty()) {
        let v: serde_json::Value = serde_json::from_str(line).expect("json");
        let mp = |x: &serde_json::Value| -> IMp {
            x.as_array().unwrap().iter().map(|p| {
                let rings: Vec<Vec<P>> = p.as_array().unwrap().iter().map(|r| r.as_array().unwrap().iter().map(|q| (q[0].as_i64().unwrap(), q[1].as_i64().unwrap())).collect()).collect();
                gen::IPoly { ext: rings.first().cloned().unwrap_or_default(), holes: rings.into_iter().skip(1).collect() }
            }).collect()
        };
        let (a, b) = (mp(&v["A"]), mp(&v["B"]));
        let mut rng = Rng::new(1);
        let op = v["op"].as_str().unwrap();
        if v["F"].as_str() == Some("f32") {
            println!("{}", stage_run::<f32>(rid, family, 0, &a, &b, op, matrix_max, &mut rng));
        } else {
            println!("{}", stage_run::<f64>(rid, family, 0, &a, &b, op, matrix_max, &mut rng));
        }
        rid += 1;
    }
}

/// possible_intersection on random FLOAT segment pairs whose meeting point is at, or within a
/// few ulps of, an end point of the second segment (T-touches and near-misses in general
/// position), plus plain crossings. Only float-decidable facts are recorded: return code,
/// number of new events, number of distinct (bitwise) new points, containment in both boxes.
pub fn float_pi(count: u64, seed: u64) {
    let mut rng = Rng::new(seed);
    let mut unit = || -> f64 { (rng.next_u64() >> 11) as f64 / (1u64 << 53) as f64 };
    for id in 1..=count {
        let (ax1, ay1) = (unit() * 4.0 - 5.0, unit() * 20.0 - 10.0);
        let (ax2, ay2) = (ax1 + 1.0 + unit() * 6.0, unit() * 20.0 - 10.0);
        let mode = (unit() * 6.0) as u32;
        let t = match mode { 0 => unit() * 1e-3, 1 => 1.0 - unit() * 1e-3, _ => 0.05 + unit() * 0.9 };
        let (mut px, mut py) = (ax1 + t * (ax2 - ax1), ay1 + t * (ay2 - ay1));
        // nudge by a few ulps
        let nud = |v: f64, k: i64| f64::from_bits((v.to_bits() as i64 + k) as u64);
        if mode != 5 {
            px = nud(px, (unit() * 5.0) as i64 - 2);
            py = nud(py, (unit() * 5.0) as i64 - 2);
        }
        let left_at_p = unit() < 0.5;
        let (qx, qy) = if mode == 5 {
            // plain crossing: b passes through p
            (px + 0.7 + unit() * 3.0, py + (unit() - 0.5) * 12.0)
        } else if left_at_p {
            (px + 0.6 + unit() * 4.0, py + (unit() - 0.5) * 12.0)
        } else {
            (px - 0.6 - unit() * 4.0, py + (unit() - 0.5) * 12.0)
        };
        let (b1, b2) = if mode == 5 {
            ((2.0 * px - qx, 2.0 * py - qy), (qx, qy))
        } else if left_at_p {
            ((px, py), (qx, qy))
        } else {
            ((qx, qy), (px, py))
        };
        let sa = unit() < 0.5;
        let swap = unit() < 0.5;
        let c = |p: (f64, f64)| Coord { x: p.0, y: p.1 };
        let mk = |p: (f64, f64), q: (f64, f64), subj: bool, cid: u32| {
            let r = SweepEvent::new_rc(cid, c(q), false, Weak::new(), subj, true);
            let l = SweepEvent::new_rc(cid, c(p), true, Rc::downgrade(&r), subj, true);
            r.set_other_event(&l);
            (l, r)
        };
        let (la, ra) = mk((ax1, ay1), (ax2, ay2), sa, 1);
        let (lb, rb) = mk(b1, b2, !sa, 2);
        let mut q: BinaryHeap<Rc<SweepEvent<f64>>> = BinaryHeap::new();
        let r = std::panic::catch_unwind(std::panic::AssertUnwindSafe(|| if swap { possible_intersection(&lb, &la, &mut q) } else { possible_intersection(&la, &lb, &mut q) }));
        let code: i64 = r.map(|c| c as i64).unwrap_or(-1);
        let pushed: Vec<Rc<SweepEvent<f64>>> = q.into_sorted_vec();
        let mut pts: Vec<(u64, u64)> = pushed.iter().map(|e| (e.point.x.to_bits(), e.point.y.to_bits())).collect();
        pts.sort();
        pts.dedup();
        let inb = |e: &Rc<SweepEvent<f64>>, p: (f64, f64), q: (f64, f64)| e.point.x >= p.0.min(q.0) && e.point.x <= p.0.max(q.0) && e.point.y >= p.1.min(q.1) && e.point.y <= p.1.max(q.1);
        let inbox = pushed.iter().all(|e| inb(e, (ax1, ay1), (ax2, ay2)) && inb(e, b1, b2));
        // the documented one-ulp bump of divide_segment (a division point sharing x with the left end
        // point of the segment being divided is moved to the next float): two points (x, y), (x+ulp, y)
        let lx = [la.point.x.to_bits(), lb.point.x.to_bits()];
        let bump = pts.len() == 2 && pts[0].1 == pts[1].1 && pts[1].0 == pts[0].0 + 1 && (lx.contains(&pts[0].0) || lx.contains(&pts[1].0));
        let linked = [&la, &ra, &lb, &rb].iter().all(|e| e.get_other_event().map(|o| o.get_other_event().map(|oo| Rc::ptr_eq(&oo, e)).unwrap_or(false)).unwrap_or(false));
        println!(
            "{{\"id\":{},\"mode\":{},\"swap\":{},\"a\":[[\"{:e}\",\"{:e}\"],[\"{:e}\",\"{:e}\"]],\"b\":[[\"{:e}\",\"{:e}\"],[\"{:e}\",\"{:e}\"]],\"code\":{},\"npushed\":{},\"npoints\":{},\"inbox\":{},\"linked\":{},\"bump\":{}}}",
            id, mode, swap, ax1, ay1, ax2, ay2, b1.0, b1.1, b2.0, b2.1, code, pushed.len(), pts.len(), inbox, linked, bump
        );
    }
}

/// C16 on float segments in ROBUST configurations far outside the integer domain (judged exactly by
/// TracePIExact.tla on the bit patterns): general crossings, needles crossing at angles down to 2^-30,
/// exact T-touches, common end points, end points on the other segment's line beyond it, clearly
/// disjoint pairs; integer-valued coordinates up to 2^30 (f32: 2^20) in random power-of-two frames.
/// The recorder classifies nothing: it writes the arguments and what the step did.
pub fn float_pi_exact<F: Fl>(count: u64, seed: u64) {
    let mut rng = Rng::new(seed);
    let f32_ = F::NAME == "f32";
    for id in 1..=count {
        let mode = rng.below(10);
        let r = |rng: &mut Rng, lo: i64, hi: i64| rng.range(lo, hi) as f64;
        let mut no_frame = false;
        // integer-valued points (exactly representable), later scaled by a power of two
        let (mut a1, mut a2, mut b1, mut b2): ((f64, f64), (f64, f64), (f64, f64), (f64, f64));
        match mode {
            0 | 1 => {
                // needles: two long segments a small offset apart, crossing (or not) at a tiny angle
                let k = if f32_ { rng.range(8, 19) } else { rng.range(14, 30) };
                let l = 2f64.powi(k as i32);
                let (x0, y0) = (r(&mut rng, -50, 50), r(&mut rng, -50, 50));
                let (da, h, db) = (r(&mut rng, -4, 4), r(&mut rng, 1, 6), r(&mut rng, -2, 12));
                let (e1, e2) = (r(&mut rng, -3, 3), r(&mut rng, -3, 3));
                a1 = (x0, y0);
                a2 = (x0 + l, y0 + da);
                b1 = (x0 + e1, y0 + h);
                b2 = (x0 + l + e2, y0 + h - db);
            }
            2 => {
                // exact T: b starts at the midpoint of a
                a1 = (2.0 * r(&mut rng, -500, 500), 2.0 * r(&mut rng, -500, 500));
                a2 = (a1.0 + 2.0 * r(&mut rng, 1, 400), a1.1 + 2.0 * r(&mut rng, -400, 400));
                b1 = ((a1.0 + a2.0) / 2.0, (a1.1 + a2.1) / 2.0);
                b2 = (b1.0 + r(&mut rng, -300, 300), b1.1 + r(&mut rng, -300, 300));
            }
            3 => {
                // a common end point
                a1 = (r(&mut rng, -500, 500), r(&mut rng, -500, 500));
                a2 = (a1.0 + r(&mut rng, 1, 400), a1.1 + r(&mut rng, -400, 400));
                b1 = if rng.chance(1, 2) { a1 } else { a2 };
                b2 = (b1.0 + r(&mut rng, -300, 300), b1.1 + r(&mut rng, -300, 300));
            }
            4 => {
                // an end point of b on the LINE of a, beyond a
                a1 = (r(&mut rng, -300, 300), r(&mut rng, -300, 300));
                let v = (r(&mut rng, 1, 100), r(&mut rng, -100, 100));
                a2 = (a1.0 + v.0, a1.1 + v.1);
                let m = r(&mut rng, 1, 3);
                b1 = if rng.chance(1, 2) { (a2.0 + m * v.0, a2.1 + m * v.1) } else { (a1.0 - m * v.0, a1.1 - m * v.1) };
                b2 = (b1.0 + r(&mut rng, -300, 300), b1.1 + r(&mut rng, -300, 300));
            }
            5 | 6 => {
                // general crossing through a lattice point of a's interior region (or a near miss)
                a1 = (r(&mut rng, -900, 900), r(&mut rng, -900, 900));
                a2 = (a1.0 + r(&mut rng, 10, 900), a1.1 + r(&mut rng, -900, 900));
                let t = (rng.range(1, 9) as f64) / 10.0;
                let p = ((a1.0 + t * (a2.0 - a1.0)).round(), (a1.1 + t * (a2.1 - a1.1)).round());
                let w = (r(&mut rng, -400, 400), r(&mut rng, -400, 400));
                b1 = (p.0 - w.0, p.1 - w.1);
                b2 = (p.0 + w.0 * r(&mut rng, 1, 2), p.1 + w.1 * r(&mut rng, 1, 2));
            }
            8 | 9 => {
                // MIXED MAGNITUDES: a lattice vertex V exactly in the interior of an oblique lattice edge a (integers up to 4000),
                // b from V to a point whose coordinates have fine fractional parts (k * 2^-16 near an axis, or an integer below
                // 4096 plus k * 2^-10): all exactly representable in f32 and f64, but the DIFFERENCES of end points need more
                // than 24 bits. Mode 9 lets b pass through V instead (a proper crossing at a lattice point).
                let v = (r(&mut rng, 1, 40), r(&mut rng, -40, 40));
                let (n, m) = (rng.range(2, 60), 0);
                let _ = m;
                let mm = rng.range(1, n - 1) as f64;
                a1 = (r(&mut rng, -1500, 1500), r(&mut rng, -1500, 1500));
                a2 = (a1.0 + n as f64 * v.0, a1.1 + n as f64 * v.1);
                let vv = (a1.0 + mm * v.0, a1.1 + mm * v.1);
                let fine = |rng: &mut Rng| -> f64 {
                    if rng.chance(1, 2) { r(rng, -40, 40) * 2f64.powi(-16) } else { r(rng, -4000, 4000) + r(rng, -500, 500) * 2f64.powi(-10) }
                };
                let w = (fine(&mut rng), fine(&mut rng));
                if mode == 8 {
                    b1 = vv;
                    b2 = w;
                } else {
                    // through V: the other end point is the reflection of w's integer part (exact), so V is interior to b
                    let wi = (w.0.round(), w.1.round());
                    b1 = (wi.0, wi.1);
                    b2 = (2.0 * vv.0 - wi.0, 2.0 * vv.1 - wi.1);
                }
                no_frame = true;
            }
            _ => {
                a1 = (r(&mut rng, -900, 900), r(&mut rng, -900, 900));
                a2 = (r(&mut rng, -900, 900), r(&mut rng, -900, 900));
                b1 = (r(&mut rng, -900, 900), r(&mut rng, -900, 900));
                b2 = (r(&mut rng, -900, 900), r(&mut rng, -900, 900));
            }
        }
        // a random lattice symmetry, then a power-of-two frame (both exact)
        let t = rng.below(8) as u32;
        let sy = |p: (f64, f64)| -> (f64, f64) {
            match t {
                0 => p,
                1 => (-p.0, p.1),
                2 => (p.0, -p.1),
                3 => (-p.0, -p.1),
                4 => (p.1, p.0),
                5 => (-p.1, p.0),
                6 => (p.1, -p.0),
                _ => (-p.1, -p.0),
            }
        };
        // (the step squares cross products of coordinate differences: beyond 2^+-200 that leaves the f64 range - the same frame bound as C08)
        let e = if no_frame { rng.range(-3, 3) } else if f32_ { rng.range(-60, 60) } else { rng.range(-200, 200) };
        let sc = 2f64.powi(e as i32);
        let tf = |p: (f64, f64)| -> (f64, f64) {
            let q = sy(p);
            (q.0 * sc, q.1 * sc)
        };
        a1 = tf(a1);
        a2 = tf(a2);
        b1 = tf(b1);
        b2 = tf(b2);
        let lex = |p: (f64, f64), q: (f64, f64)| p.0 < q.0 || (p.0 == q.0 && p.1 < q.1);
        if a1 == a2 || b1 == b2 {
            continue;
        }
        if !lex(a1, a2) {
            std::mem::swap(&mut a1, &mut a2);
        }
        if !lex(b1, b2) {
            std::mem::swap(&mut b1, &mut b2);
        }
        let mx = [a1, a2, b1, b2].iter().map(|p| p.0.abs().max(p.1.abs())).fold(0.0f64, f64::max).max(f64::MIN_POSITIVE);
        let mexp = mx.log2().floor() as i32 + 1;
        let sa = rng.chance(1, 2);
        let swap = rng.chance(1, 2);
        let c = |p: (f64, f64)| Coord { x: F::from_f64(p.0), y: F::from_f64(p.1) };
        let mk = |p: (f64, f64), q: (f64, f64), subj: bool, cid: u32| {
            let r = SweepEvent::new_rc(cid, c(q), false, Weak::new(), subj, true);
            let l = SweepEvent::new_rc(cid, c(p), true, Rc::downgrade(&r), subj, true);
            r.set_other_event(&l);
            (l, r)
        };
        let (la, ra) = mk(a1, a2, sa, 1);
        let (lb, rb) = mk(b1, b2, !sa, 2);
        let mut q: BinaryHeap<Rc<SweepEvent<F>>> = BinaryHeap::new();
        let res = std::panic::catch_unwind(std::panic::AssertUnwindSafe(|| if swap { possible_intersection(&lb, &la, &mut q) } else { possible_intersection(&la, &lb, &mut q) }));
        let code: i64 = res.map(|c| c as i64).unwrap_or(-1);
        let hx = |v: F| format!("\"{:016x}\"", v.to_f64().to_bits());
        let pt = |e: &Rc<SweepEvent<F>>| format!("[{},{}]", hx(e.point.x), hx(e.point.y));
        let alive: Vec<Rc<SweepEvent<F>>> = q.into_sorted_vec();     // the new events are owned by the queue only: keep them alive while the links are read
        let pushed: Vec<String> = alive.iter().map(|e| format!("[{},{},{}]", e.contour_id, hx(e.point.x), hx(e.point.y))).collect();
        let linked = [&la, &ra, &lb, &rb].iter().all(|e| e.get_other_event().map(|o| o.get_other_event().map(|oo| Rc::ptr_eq(&oo, e)).unwrap_or(false)).unwrap_or(false));
        let end = |l: &Rc<SweepEvent<F>>| l.get_other_event().map(|o| pt(&o)).unwrap_or_else(|| "[]".into());
        println!(
            "{{\"id\":{},\"mode\":{},\"F\":\"{}\",\"swap\":{},\"mexp\":{},\"a\":[{},{}],\"b\":[{},{}],\"code\":{},\"pushed\":[{}],\"aend\":{},\"bend\":{},\"linked\":{}}}",
            id, mode, F::NAME, swap, mexp, pt(&la), pt(&ra), pt(&lb), pt(&rb), code, pushed.join(","), end(&la), end(&lb), linked
        );
        drop(alive);
    }
}

/// C15 on FLOAT events, for the exact pass `TraceOrderExact.tla`: two edges leaving one common vertex P to the same side
/// (two left events or two right events at one point), most of them NEARLY collinear - the second far end is a float
/// multiple of the first direction, off the line by a rounding error - i.e. the two edges at the tip of a valid sliver.
/// Each record is one real evaluation of Ord::cmp in both directions (and of compare_segments for left events);
/// the coordinates are recorded as bit patterns, the verdict is decided exactly on them by TLC.
pub fn float_order_exact<F: Fl>(count: u64, seed: u64) {
    let mut rng = Rng::new(seed);
    let f32_ = F::NAME == "f32";
    let r = |rng: &mut Rng, lo: i64, hi: i64| rng.range(lo, hi) as f64;
    let rf = |x: f64| F::from_f64(x).to_f64();      // rounded to the float type under test
    for id in 1..=count {
        let mode = rng.below(10);
        let bits = if f32_ { 20 } else { 50 };
        // a direction with a full mantissa
        let fullm = |rng: &mut Rng| -> f64 { (rng.range(1, 1 << 30) as f64 * 2f64.powi(-30) + rng.range(0, 1 << 22) as f64 * 2f64.powi(-52)) * if rng.chance(1, 2) { 1.0 } else { -1.0 } };
        let (p, q1, q2): ((f64, f64), (f64, f64), (f64, f64));
        match mode {
            0..=3 => {
                // tip at the origin: q2 = s * q1, rounded
                let v = (rf(fullm(&mut rng)), rf(fullm(&mut rng)));
                let s = 0.25 + rng.range(1, 1 << 20) as f64 * 2f64.powi(-19);
                p = (0.0, 0.0);
                q1 = v;
                q2 = (rf(v.0 * s), rf(v.1 * s));
            }
            4 | 5 => {
                // the sliver of small perturbations: (0,0), (1, 1+e), (1+e, 1+2e) and relatives: q1 = (a, a + j e), q2 = (a + k e, a + l e)
                let e = 2f64.powi(-(rng.range(bits / 2 + 2, bits) as i32));
                let a = r(&mut rng, 1, 4);
                p = (0.0, 0.0);
                q1 = (rf(a), rf(a + r(&mut rng, -3, 3) * e));
                q2 = (rf(a + r(&mut rng, -3, 3) * e), rf(a + r(&mut rng, -3, 3) * e));
            }
            6 => {
                // tip away from the origin: q = p + v, p + s v (rounded)
                let pp = (rf(r(&mut rng, -8, 8) + fullm(&mut rng)), rf(r(&mut rng, -8, 8) + fullm(&mut rng)));
                let v = (fullm(&mut rng), fullm(&mut rng));
                let s = 0.25 + rng.range(1, 1 << 20) as f64 * 2f64.powi(-19);
                p = pp;
                q1 = (rf(pp.0 + v.0), rf(pp.1 + v.1));
                q2 = (rf(pp.0 + s * v.0), rf(pp.1 + s * v.1));
            }
            7 => {
                // exactly collinear (small integers): same operand = not a valid input (not judged), different operands = subject first
                let pp = (r(&mut rng, -50, 50), r(&mut rng, -50, 50));
                let v = (r(&mut rng, -20, 20), r(&mut rng, -20, 20));
                let m = r(&mut rng, 2, 5);
                p = pp;
                q1 = (pp.0 + v.0, pp.1 + v.1);
                q2 = (pp.0 + m * v.0, pp.1 + m * v.1);
            }
            _ => {
                // general position
                p = (r(&mut rng, -900, 900), r(&mut rng, -900, 900));
                q1 = (r(&mut rng, -900, 900), r(&mut rng, -900, 900));
                q2 = (r(&mut rng, -900, 900), r(&mut rng, -900, 900));
            }
        }
        // a random lattice symmetry, then a power-of-two frame (both exact)
        let t = rng.below(8) as u32;
        let e = if f32_ { rng.range(-30, 30) } else { rng.range(-200, 200) };
        let sc = 2f64.powi(e as i32);
        let tf = |p: (f64, f64)| -> (f64, f64) {
            let q = match t {
                0 => p,
                1 => (-p.0, p.1),
                2 => (p.0, -p.1),
                3 => (-p.0, -p.1),
                4 => (p.1, p.0),
                5 => (-p.1, p.0),
                6 => (p.1, -p.0),
                _ => (-p.1, -p.0),
            };
            (q.0 * sc, q.1 * sc)
        };
        let (p, q1, q2) = (tf(p), tf(q1), tf(q2));
        let lex = |p: (f64, f64), q: (f64, f64)| p.0 < q.0 || (p.0 == q.0 && p.1 < q.1);
        if p == q1 || p == q2 || q1 == q2 {
            continue;
        }
        // both edges must leave P to the same side of the sweep
        let left = lex(p, q1);
        if lex(p, q2) != left {
            continue;
        }
        let sa = rng.chance(1, 2);
        let sb = if rng.chance(1, 2) { sa } else { !sa };
        let c = |p: (f64, f64)| Coord { x: F::from_f64(p.0), y: F::from_f64(p.1) };
        let mk = |q: (f64, f64), subj: bool, cid: u32| {
            let o = SweepEvent::new_rc(cid, c(q), !left, Weak::new(), subj, true);
            let a = SweepEvent::new_rc(cid, c(p), left, Rc::downgrade(&o), subj, true);
            o.set_other_event(&a);
            (a, o)
        };
        let (a, oa) = mk(q1, sa, 1);
        let (b, ob) = mk(q2, sb, if sa == sb { 1 } else { 2 });
        let code = |f: &dyn Fn() -> std::cmp::Ordering| -> i64 { std::panic::catch_unwind(std::panic::AssertUnwindSafe(f)).map(|o| ord_code(o) as i64).unwrap_or(-9) };
        let (c1, c2) = (code(&|| a.cmp(&b)), code(&|| b.cmp(&a)));
        let (s1, s2) = if left { (code(&|| compare_segments(&a, &b)), code(&|| compare_segments(&b, &a))) } else { (0, 0) };
        let hx = |v: F| format!("\"{:016x}\"", v.to_f64().to_bits());
        let pt = |e: &Rc<SweepEvent<F>>| format!("[{},{}]", hx(e.point.x), hx(e.point.y));
        // anti-vacuity counter: is the pair collinear for a NAIVE cross product in the float type under test?
        let (d1, d2) = ((oa.point.x - a.point.x, oa.point.y - a.point.y), (ob.point.x - a.point.x, ob.point.y - a.point.y));
        let nc = d1.0 * d2.1 == d1.1 * d2.0;
        println!(
            "{{\"id\":{},\"mode\":{},\"F\":\"{}\",\"nc\":{},\"left\":{},\"sa\":{},\"sb\":{},\"p\":{},\"oa\":{},\"ob\":{},\"c1\":{},\"c2\":{},\"s1\":{},\"s2\":{}}}",
            id, mode, F::NAME, nc, left, sa, sb, pt(&a), pt(&oa), pt(&ob), c1, c2, s1, s2
        );
    }
}
