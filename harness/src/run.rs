//! Calling the real library and writing down what it returned. No judgement here.
use crate::gen::{IMp, IPoly, P};
use geo_booleanop::boolean::{BooleanOp, Operation};
use geo_types::{Coord, LineString, MultiPolygon, Polygon};
use std::fmt::Write as _;

pub const OPS: [(&str, Operation); 4] = [
    ("int", Operation::Intersection),
    ("union", Operation::Union),
    ("diff", Operation::Difference),
    ("xor", Operation::Xor),
];
pub fn op_of(name: &str) -> Operation {
    OPS.iter().find(|o| o.0 == name).expect("op name").1
}

pub trait Fl: geo_booleanop::boolean::Float + Send + Sync + 'static {
    const NAME: &'static str;
    /// deviation unit relative to the input magnitude: f64 1e-12, f32 1e-8 (tolerance = 1000 units)
    const UNIT: f64;
    fn from_f64(x: f64) -> Self;
    fn to_f64(self) -> f64;
    fn bits(self) -> u64;
}
impl Fl for f64 {
    const NAME: &'static str = "f64";
    const UNIT: f64 = 1e-12;
    fn from_f64(x: f64) -> f64 {
        x
    }
    fn to_f64(self) -> f64 {
        self
    }
    fn bits(self) -> u64 {
        self.to_bits()
    }
}
impl Fl for f32 {
    const NAME: &'static str = "f32";
    const UNIT: f64 = 1e-8;
    fn from_f64(x: f64) -> f32 {
        x as f32
    }
    fn to_f64(self) -> f64 {
        self as f64
    }
    fn bits(self) -> u64 {
        self.to_bits() as u64
    }
}

/// Frames: how the integer lattice is presented to the library.
///   |k| < 1000 : real coordinate = int * 2^k   (exact; scaling law C08)
///   k = 1000+d : real coordinate = int / d     (d = 3, 7, 10: not representable; only used for
///                axis-parallel operands, whose combinatorics is preserved by any monotone map
///                of each axis and whose results consist of input coordinates only)
pub fn frame_value(n: f64, k: i32) -> f64 {
    if k >= 1000 {
        n / (k - 1000) as f64
    } else {
        n * 2f64.powi(k)
    }
}

/// frames 2000..2003 ("ULP slivers"): x = base + int * step, y = int
///   2000: 1 + int * 2^-52 (f64 only)      2001: -2 + int * 2^-52 (f64 only; negative x)
///   2002: 1 + int * 2^-23 (f32 and f64)   2003: -2 + int * 2^-23 (f32 and f64; negative x)
/// every such x is exactly representable (|x| in [1, 2) has that spacing)
pub const ULP_FRAME: i32 = 2000;
pub fn ulp_frame(k: i32) -> Option<(f64, f64)> {
    match k {
        2000 => Some((1.0, f64::EPSILON)),
        2001 => Some((-2.0, f64::EPSILON)),
        2002 => Some((1.0, f32::EPSILON as f64)),
        2003 => Some((-2.0, f32::EPSILON as f64)),
        _ => None,
    }
}
pub fn frame_xy(p: P, k: i32) -> (f64, f64) {
    if let Some((base, step)) = ulp_frame(k) {
        (base + p.0 as f64 * step, p.1 as f64)
    } else {
        (frame_value(p.0 as f64, k), frame_value(p.1 as f64, k))
    }
}

/// value of a named operand: integer geometry in frame k
pub fn to_geo<F: Fl>(mp: &IMp, k: i32) -> MultiPolygon<F> {
    let ls = |r: &Vec<P>| LineString(r.iter().map(|p| { let (x, y) = frame_xy(*p, k); Coord { x: F::from_f64(x), y: F::from_f64(y) } }).collect());
    MultiPolygon(mp.iter().map(|p| Polygon::new(ls(&p.ext), p.holes.iter().map(ls).collect())).collect())
}

/// like `to_geo`, but zeros are written as -0.0 on the chosen axes (what negating the float
/// coordinates of an operand - a reflection - really produces)
pub fn to_geo_nz<F: Fl>(mp: &IMp, k: i32, nz: (bool, bool)) -> MultiPolygon<F> {
    let z = |v: f64, neg: bool| if neg && v == 0.0 { -0.0 } else { v };
    let ls = |r: &Vec<P>| LineString(r.iter().map(|p| { let (x, y) = frame_xy(*p, k); Coord { x: F::from_f64(z(x, nz.0)), y: F::from_f64(z(y, nz.1)) } }).collect());
    MultiPolygon(mp.iter().map(|p| Polygon::new(ls(&p.ext), p.holes.iter().map(ls).collect())).collect())
}

/// A result (or operand) as seen through the public API, snapped to the integer frame:
/// every vertex as [nearest x, nearest y, deviation] plus a digest of the raw bits.
#[derive(Clone, Debug, PartialEq)]
pub struct Snapped {
    pub polys: Vec<Vec<Vec<(i64, i64, i64)>>>,
    pub bits: String,
}
pub const DEV_CAP: i64 = 1 << 30;
pub const COORD_CAP: f64 = 1_000_000_000.0;

pub fn fnv(h: &mut u64, x: u64) {
    for i in 0..8 {
        *h ^= (x >> (8 * i)) & 0xff;
        *h = h.wrapping_mul(0x0000_0100_0000_01B3);
    }
}

/// `k`: frame exponent (the value is divided by 2^k, exactly, before snapping);
/// `mag`: magnitude of the input coordinates in the integer frame (>= 1).
pub fn snap<F: Fl>(mp: &MultiPolygon<F>, k: i32, mag: f64) -> Snapped {
    let mut h: u64 = 0xcbf2_9ce4_8422_2325;
    let mut axis = 0u8;
    let mut one = |c: F, h: &mut u64| -> (i64, i64) {
        axis ^= 1; // 1 = x, 0 = y (coordinates are visited x, y, x, y, ...)
        if let Some((base, step)) = ulp_frame(k) {
            let raw = c.to_f64();
            fnv(h, raw.to_bits());
            if !raw.is_finite() {
                return (COORD_CAP as i64, DEV_CAP);
            }
            let n = if axis == 1 { ((raw - base) / step).round() } else { raw.round() };
            let back = if axis == 1 { base + n * step } else { n };
            if n.abs() > COORD_CAP {
                return (COORD_CAP as i64, DEV_CAP);
            }
            return (n as i64, if back == raw { 0 } else { 1 });
        }
        if k >= 1000 {
            // non-representable frame: a coordinate is exact iff it is bit-identical to the
            // presentation of an integer
            let raw = c.to_f64();
            fnv(h, raw.to_bits());
            if !raw.is_finite() {
                return (COORD_CAP as i64, DEV_CAP);
            }
            let n = (raw * (k - 1000) as f64).round();
            if n.abs() > COORD_CAP {
                return ((COORD_CAP as i64) * if n < 0.0 { -1 } else { 1 }, DEV_CAP);
            }
            if F::from_f64(frame_value(n, k)).to_f64() == raw {
                return (n as i64, 0);
            }
            let d = ((raw * (k - 1000) as f64 - n).abs() / mag / F::UNIT).ceil().max(1.0);
            return (n as i64, if d >= DEV_CAP as f64 { DEV_CAP } else { d as i64 });
        }
        let v = c.to_f64() * 2f64.powi(-k); // exact: power of two, no subnormals in the frames used
        fnv(h, v.to_bits());
        if !v.is_finite() {
            return (COORD_CAP as i64, DEV_CAP);
        }
        let n = v.round();
        if n.abs() > COORD_CAP {
            return ((COORD_CAP as i64) * if n < 0.0 { -1 } else { 1 }, DEV_CAP);
        }
        let d = ((v - n).abs() / mag / F::UNIT).ceil();
        (n as i64, if d >= DEV_CAP as f64 { DEV_CAP } else { d as i64 })
    };
    let mut polys = vec![];
    for p in &mp.0 {
        let mut rings = vec![];
        fnv(&mut h, 0xAAAA);
        for r in std::iter::once(p.exterior()).chain(p.interiors().iter()) {
            fnv(&mut h, 0xBBBB);
            let mut pts = vec![];
            for c in &r.0 {
                let (x, dx) = one(c.x, &mut h);
                let (y, dy) = one(c.y, &mut h);
                pts.push((x, y, dx.max(dy)));
            }
            rings.push(pts);
        }
        polys.push(rings);
    }
    Snapped { polys, bits: format!("{:016x}", h) }
}

pub fn snapped_to_imp(s: &Snapped) -> IMp {
    s.polys
        .iter()
        .map(|p| IPoly {
            ext: p.first().map(|r| r.iter().map(|q| (q.0, q.1)).collect()).unwrap_or_default(),
            holes: p.iter().skip(1).map(|r| r.iter().map(|q| (q.0, q.1)).collect()).collect(),
        })
        .collect()
}

pub fn json_snapped(s: &Snapped) -> String {
    let mut o = String::from("[");
    for (i, p) in s.polys.iter().enumerate() {
        if i > 0 {
            o.push(',');
        }
        o.push('[');
        for (j, r) in p.iter().enumerate() {
            if j > 0 {
                o.push(',');
            }
            o.push('[');
            for (k, q) in r.iter().enumerate() {
                if k > 0 {
                    o.push(',');
                }
                let _ = write!(o, "[{},{},{}]", q.0, q.1, q.2);
            }
            o.push(']');
        }
        o.push(']');
    }
    o.push(']');
    o
}

pub fn magnitude(mps: &[&IMp]) -> f64 {
    let mut m: i64 = 1;
    for mp in mps {
        for p in mp.iter() {
            for q in p.ext.iter().chain(p.holes.iter().flatten()) {
                m = m.max(q.0.abs()).max(q.1.abs());
            }
        }
    }
    m as f64
}

#[derive(Clone, Debug)]
pub struct Outcome {
    pub outcome: String, // ok | panic | budget
    pub msg: String,
    pub popped: u64,
}

/// pairing: 'p' = pass as Polygon (operand must have exactly one polygon), 'm' = MultiPolygon
pub fn call<F: Fl>(a: &MultiPolygon<F>, b: &MultiPolygon<F>, op: Operation, px: char, py: char, budget: u64) -> (Outcome, Option<MultiPolygon<F>>) {
    geo_booleanop::boolean::verif::set_budget(budget);
    let r = std::panic::catch_unwind(std::panic::AssertUnwindSafe(|| match (px, py) {
        ('p', 'p') => a.0[0].boolean(&b.0[0], op),
        ('p', _) => a.0[0].boolean(b, op),
        (_, 'p') => a.boolean(&b.0[0], op),
        _ => a.boolean(b, op),
    }));
    let popped = geo_booleanop::boolean::verif::popped();
    geo_booleanop::boolean::verif::set_budget(u64::MAX);
    match r {
        Ok(m) => (Outcome { outcome: "ok".into(), msg: String::new(), popped }, Some(m)),
        Err(e) => {
            let msg = if let Some(s) = e.downcast_ref::<&str>() {
                s.to_string()
            } else if let Some(s) = e.downcast_ref::<String>() {
                s.clone()
            } else {
                "?".to_string()
            };
            let outcome = if msg.contains(geo_booleanop::boolean::verif::BUDGET_MESSAGE) { "budget" } else { "panic" };
            (Outcome { outcome: outcome.into(), msg, popped }, None)
        }
    }
}

/// One long-lived worker thread executes every guarded library call of the process, in order:
/// the calls of a session (and of consecutive sessions) share one thread and therefore one set
/// of thread-local state, exactly like a caller's own thread would. The requesting side waits
/// with a wall-clock limit; if a call does not return the outcome is "timeout" (a hang is data,
/// like a panic) and the worker is abandoned - the caller must end the process soon.
type Job = Box<dyn FnOnce() + Send>;
fn worker() -> &'static std::sync::Mutex<std::sync::mpsc::Sender<Job>> {
    static W: std::sync::OnceLock<std::sync::Mutex<std::sync::mpsc::Sender<Job>>> = std::sync::OnceLock::new();
    W.get_or_init(|| {
        let (tx, rx) = std::sync::mpsc::channel::<Job>();
        std::thread::Builder::new()
            .stack_size(256 << 20)
            .spawn(move || {
                for job in rx {
                    job();
                }
            })
            .expect("spawn worker");
        std::sync::Mutex::new(tx)
    })
}

pub fn call_guarded<F: Fl>(a: &MultiPolygon<F>, b: &MultiPolygon<F>, op: Operation, px: char, py: char, budget: u64, secs: u64) -> (Outcome, Option<MultiPolygon<F>>) {
    let (o, r, _, _) = call_guarded_alias(a, b, false, op, px, py, budget, secs);
    (o, r)
}

/// like `call_guarded`; with `alias` the SAME object is handed over as both operands
/// (`a.union(&a)`: both references point at one buffer). Also returns the digests of the two
/// operand objects the library actually saw, taken after the call (operands-untouched clause).
#[allow(clippy::too_many_arguments)]
pub fn call_guarded_alias<F: Fl>(a: &MultiPolygon<F>, b: &MultiPolygon<F>, alias: bool, op: Operation, px: char, py: char, budget: u64, secs: u64) -> (Outcome, Option<MultiPolygon<F>>, String, String) {
    let (a2, b2) = (a.clone(), b.clone());
    let (tx, rx) = std::sync::mpsc::channel();
    let job: Job = Box::new(move || {
        let (o, r) = if alias { call(&a2, &a2, op, px, py, budget) } else { call(&a2, &b2, op, px, py, budget) };
        let _ = tx.send((o, r, digest(&a2), digest(if alias { &a2 } else { &b2 })));
    });
    if worker().lock().unwrap().send(job).is_err() {
        return (Outcome { outcome: "panic".into(), msg: "worker thread gone".into(), popped: 0 }, None, String::new(), String::new());
    }
    match rx.recv_timeout(std::time::Duration::from_secs(secs)) {
        Ok(r) => r,
        Err(_) => (Outcome { outcome: "timeout".into(), msg: format!("no return after {} s", secs), popped: 0 }, None, digest(a), digest(b)),
    }
}

/// digest of the raw bits of an operand (for the operands-untouched clause)
pub fn digest<F: Fl>(mp: &MultiPolygon<F>) -> String {
    let mut h: u64 = 0xcbf2_9ce4_8422_2325;
    for p in &mp.0 {
        fnv(&mut h, 0xAAAA);
        for r in std::iter::once(p.exterior()).chain(p.interiors().iter()) {
            fnv(&mut h, 0xBBBB);
            for c in &r.0 {
                fnv(&mut h, c.x.bits());
                fnv(&mut h, c.y.bits());
            }
        }
    }
    format!("{:016x}", h)
}

pub fn jstr(s: &str) -> String {
    let mut o = String::from("\"");
    for ch in s.chars() {
        match ch {
            '"' => o.push_str("\\\""),
            '\\' => o.push_str("\\\\"),
            '\n' => o.push_str("\\n"),
            c if (c as u32) < 0x20 => o.push(' '),
            c => o.push(c),
        }
    }
    o.push('"');
    o
}
