//! Splay tree binding (C17, C18): replay of every transition of TLC's state graph through the
//! real SplayTree / SplaySet, recorded random histories, and stack high-water-mark scenarios.
use crate::rng::Rng;
use geo_booleanop::splay::{SplaySet, SplayTree};
use serde_json::Value;
use std::cmp::Ordering;
use std::collections::{HashMap, VecDeque};
use std::fmt::Write as _;

fn cmp_i(a: &i64, b: &i64) -> Ordering {
    a.cmp(b)
}
type Tree = SplayTree<i64, i64, fn(&i64, &i64) -> Ordering>;
type Set = SplaySet<i64, fn(&i64, &i64) -> Ordering>;

/// "Some(Node { key: 1, value: 7, left: None, right: Some(Node {...}) })" -> "[1,7,[],[...]]"
fn parse_dbg(s: &str) -> (String, &str) {
    let s = s.trim_start();
    if let Some(rest) = s.strip_prefix("None") {
        return ("[]".into(), rest);
    }
    let rest = s.strip_prefix("Some(Node { key: ").unwrap_or_else(|| panic!("unexpected Debug rendering: {}", &s[..s.len().min(60)]));
    let i = rest.find(',').unwrap();
    let k = &rest[..i];
    let rest = rest[i..].strip_prefix(", value: ").unwrap();
    let i = rest.find(',').unwrap();
    let v = &rest[..i];
    let rest = rest[i..].strip_prefix(", left: ").unwrap();
    let (l, rest) = parse_dbg(rest);
    let rest = rest.strip_prefix(", right: ").unwrap();
    let (r, rest) = parse_dbg(rest);
    let rest = rest.strip_prefix(" })").unwrap();
    (format!("[{},{},{},{}]", k, v, l, r), rest)
}
/// the (key, value) pairs of a shape "[k,v,left,right]" in symmetric order: WHAT the tree stores, as
/// opposed to HOW it is arranged. A difference in content is a contract matter (the Debug rendering is a
/// public observable and every later lookup / iteration depends on it), a difference in arrangement is drift.
fn inorder(shape_json: &str) -> Vec<(i64, i64)> {
    fn walk(v: &Value, out: &mut Vec<(i64, i64)>) {
        if let Some(a) = v.as_array() {
            if a.len() == 4 {
                walk(&a[2], out);
                out.push((a[0].as_i64().unwrap_or(i64::MIN), a[1].as_i64().unwrap_or(i64::MIN)));
                walk(&a[3], out);
            }
        }
    }
    let mut out = vec![];
    if let Ok(v) = serde_json::from_str::<Value>(shape_json) {
        walk(&v, &mut out);
    }
    out
}

pub fn shape(t: &Tree) -> String {
    parse_dbg(&format!("{:?}", t)).0
}
fn shape_set(t: &Set) -> String {
    // SplaySet has no Debug; its shape is observed through the map replay only
    let _ = t;
    String::new()
}

fn canon(v: &Value) -> String {
    serde_json::to_string(v).unwrap()
}

#[derive(Clone)]
enum Step {
    Op(String, i64, i64),
    IntoIter,
    Iter(bool),
    DropIter,
}

struct Real {
    tree: Option<Tree>,
    set: Option<Set>,
    it: Option<<Tree as IntoIterator>::IntoIter>,
    sit: Option<<Set as IntoIterator>::IntoIter>,
}
impl Real {
    fn new() -> Real {
        Real { tree: Some(SplayTree::new(cmp_i as fn(&i64, &i64) -> Ordering)), set: Some(SplaySet::new(cmp_i as fn(&i64, &i64) -> Ordering)), it: None, sit: None }
    }
}

/// outcome of one real step: (ret, rv, len, shape) for the map; (ret, len) for the set
struct Obs {
    ret: i64,
    rv: i64,
    len: i64,
    shape: String,
    set_ret: i64,
    set_len: i64,
}

fn apply(r: &mut Real, st: &Step) -> Obs {
    match st {
        Step::Op(op, k, v) => {
            let t = r.tree.as_mut().unwrap();
            let s = r.set.as_mut().unwrap();
            let (ret, rv, set_ret) = match op.as_str() {
                "insert" => {
                    let a = t.insert(*k, *v).unwrap_or(-1);
                    let b = s.insert(*k);
                    (a, -1, if b { -1 } else { 0 }) // set: true = newly inserted  <=> map returned None
                }
                "remove" => {
                    let a = t.remove(k).unwrap_or(-1);
                    let b = s.remove(k);
                    (a, -1, if b { 0 } else { -1 })
                }
                "get" => (t.get(k).copied().unwrap_or(-1), -1, -2),
                "find" => (t.find_key(k).copied().unwrap_or(-1), -1, s.find(k).copied().unwrap_or(-1)),
                "contains" => (t.contains(k) as i64, -1, s.contains(k) as i64),
                "next" => {
                    let x = t.next(k).map(|kv| (*kv.0, *kv.1));
                    (x.map(|p| p.0).unwrap_or(-1), x.map(|p| p.1).unwrap_or(-1), s.next(k).copied().unwrap_or(-1))
                }
                "prev" => {
                    let x = t.prev(k).map(|kv| (*kv.0, *kv.1));
                    (x.map(|p| p.0).unwrap_or(-1), x.map(|p| p.1).unwrap_or(-1), s.prev(k).copied().unwrap_or(-1))
                }
                "min" => (t.min().copied().unwrap_or(-1), -1, s.min().copied().unwrap_or(-1)),
                "max" => (t.max().copied().unwrap_or(-1), -1, s.max().copied().unwrap_or(-1)),
                "len" => (t.len() as i64, -1, s.len() as i64),
                "is_empty" => (t.is_empty() as i64, -1, s.is_empty() as i64),
                "get_mut" => {
                    // write through the handed-out reference; report the value found before
                    let old = match t.get_mut(k) {
                        Some(slot) => {
                            let o = *slot;
                            *slot = *v;
                            o
                        }
                        None => -1,
                    };
                    (old, -1, -2)
                }
                "index" => (if t.contains(k) { t[k] } else { -1 }, -1, -2),
                "index_mut" => {
                    // t[&k] = v (only for stored keys: Index panics otherwise, by contract)
                    if t.contains(k) {
                        let old = t[k];
                        t[k] = *v;
                        (old, -1, -2)
                    } else {
                        (-1, -1, -2)
                    }
                }
                "clear" => {
                    t.clear();
                    s.clear();
                    (-1, -1, -1)
                }
                _ => panic!("op {}", op),
            };
            assert_eq!(t.is_empty(), t.len() == 0);
            Obs { ret, rv, len: t.len() as i64, shape: shape(t), set_ret, set_len: s.len() as i64 }
        }
        Step::IntoIter => {
            let t = r.tree.take().unwrap();
            let s = r.set.take().unwrap();
            let len = t.len() as i64;
            r.it = Some(t.into_iter());
            r.sit = Some(s.into_iter());
            Obs { ret: -1, rv: -1, len, shape: String::new(), set_ret: -1, set_len: len }
        }
        Step::Iter(back) => {
            let it = r.it.as_mut().unwrap();
            let sit = r.sit.as_mut().unwrap();
            let x = if *back { it.next_back() } else { it.next() };
            let y = if *back { sit.next_back() } else { sit.next() };
            let rem = it.size_hint();
            assert_eq!(Some(rem.0), rem.1);
            Obs { ret: x.map(|p| p.0).unwrap_or(-1), rv: x.map(|p| p.1).unwrap_or(-1), len: rem.0 as i64, shape: String::new(), set_ret: y.unwrap_or(-1), set_len: sit.size_hint().0 as i64 }
        }
        Step::DropIter => {
            r.it = None;
            r.sit = None;
            *r = Real::new();
            Obs { ret: -1, rv: -1, len: 0, shape: "[]".into(), set_ret: -1, set_len: 0 }
        }
    }
}

/// Replay every transition of the TLC state graph. Prints one JSON summary line.
pub fn replay_graph(path: &str) {
    let text = std::fs::read_to_string(path).expect("graph file");
    let mut states: HashMap<String, Value> = HashMap::new();
    for line in text.lines().filter(|l| !l.trim().is_empty()) {
        let v: Value = serde_json::from_str(line).expect("graph json");
        let key = format!("{}|{}", v["mode"].as_str().unwrap(), canon(&v["t"]));
        states.insert(key, v);
    }
    // successors of a state with the step that takes there
    let succ = |v: &Value| -> Vec<(Step, String)> {
        let mut out = vec![];
        if v["mode"] == "tree" {
            for tr in v["trans"].as_array().unwrap() {
                let o = &tr["o"];
                out.push((Step::Op(o["op"].as_str().unwrap().to_string(), o["k"].as_i64().unwrap(), o["v"].as_i64().unwrap()), format!("tree|{}", canon(&tr["t"]))));
            }
            out.push((Step::IntoIter, format!("iter|{}", canon(&v["t"]))));
        } else {
            for tr in v["itrans"].as_array().unwrap() {
                out.push((Step::Iter(tr["back"].as_bool().unwrap()), format!("iter|{}", canon(&tr["t"]))));
            }
            out.push((Step::DropIter, "tree|[]".to_string()));
        }
        out
    };
    // shortest paths
    let mut path_to: HashMap<String, Vec<Step>> = HashMap::new();
    let start = "tree|[]".to_string();
    path_to.insert(start.clone(), vec![]);
    let mut q = VecDeque::new();
    q.push_back(start);
    while let Some(s) = q.pop_front() {
        let v = match states.get(&s) {
            Some(v) => v,
            None => continue,
        };
        let p = path_to[&s].clone();
        for (st, tgt) in succ(v) {
            if !path_to.contains_key(&tgt) {
                let mut p2 = p.clone();
                p2.push(st);
                path_to.insert(tgt.clone(), p2);
                q.push_back(tgt);
            }
        }
    }
    let mut n_trans = 0u64;
    let mut n_contract = 0u64;
    let mut n_shape = 0u64;
    let mut n_unreached = 0u64;
    let mut n_ref = 0u64;
    let mut n_refchecks = 0u64;
    let mut examples: Vec<String> = vec![];
    let mut keys: Vec<&String> = states.keys().collect();
    keys.sort();
    for key in keys {
        let v = &states[key];
        let p = match path_to.get(key) {
            Some(p) => p,
            None => {
                n_unreached += 1;
                continue;
            }
        };
        let build = || -> Real {
            let mut r = Real::new();
            for st in p {
                apply(&mut r, st);
            }
            r
        };
        // the state itself must be what the path produces
        if v["mode"] == "tree" {
            let r = build();
            if shape(r.tree.as_ref().unwrap()) != canon(&v["t"]) {
                n_shape += 1;
                if examples.len() < 5 {
                    examples.push(format!("{{\"class\":\"shape\",\"at\":\"path to state\",\"state\":{},\"got\":{}}}", canon(&v["t"]), shape(r.tree.as_ref().unwrap())));
                }
            }
            // reference stability, exhaustively: references handed out by two successive lookups
            // (to any ordered pair of stored keys) must still denote the same elements after
            // every further lookup from this state
            {
                let keys_here: Vec<i64> = {
                    let r = build();
                    let mut ks = vec![];
                    let t = r.tree.as_ref().unwrap();
                    let mut cur = t.min().copied();
                    while let Some(k) = cur {
                        ks.push(k);
                        cur = t.next(&k).map(|kv| *kv.0);
                    }
                    ks
                };
                for &k1 in &keys_here {
                    for &k2 in &keys_here {
                        let r = build();
                        let t = r.tree.as_ref().unwrap();
                        let sset = r.set.as_ref().unwrap();
                        let (rk1, rv1) = (t.find_key(&k1).unwrap(), t.get(&k1).unwrap());
                        let v1 = *rv1;
                        let rk2 = if k2 != k1 { t.find_key(&k2) } else { t.next(&k1).map(|kv| kv.0) };
                        let k2v = rk2.copied();
                        let s1 = sset.find(&k1).unwrap();
                        let lo = keys_here[0] - 1;
                        let hi = keys_here[keys_here.len() - 1] + 1;
                        for probe in lo..=hi {
                            let _ = t.get(&probe);
                            let _ = t.next(&probe);
                            let _ = t.prev(&probe);
                            let _ = t.contains(&probe);
                            let _ = t.find_key(&probe);
                            let _ = sset.contains(&probe);
                            let _ = sset.next(&probe);
                            let _ = sset.prev(&probe);
                            n_refchecks += 1;
                            if *rk1 != k1 || *rv1 != v1 || rk2.copied() != k2v || *s1 != k1 {
                                n_ref += 1;
                                if examples.len() < 5 {
                                    examples.push(format!("{{\"class\":\"reference\",\"state\":{},\"held\":[{},{}],\"after_lookups_up_to\":{},\"now_reads\":[{},{}]}}", canon(&v["t"]), k1, k2, probe, *rk1, *s1));
                                }
                                break;
                            }
                        }
                    }
                }
            }
            for tr in v["trans"].as_array().unwrap() {
                n_trans += 1;
                let o = &tr["o"];
                let mut r = build();
                let ob = apply(&mut r, &Step::Op(o["op"].as_str().unwrap().to_string(), o["k"].as_i64().unwrap(), o["v"].as_i64().unwrap()));
                let (eret, erv, elen) = (tr["ret"].as_i64().unwrap(), tr["rv"].as_i64().unwrap(), tr["len"].as_i64().unwrap());
                let opn = o["op"].as_str().unwrap();
                let set_expected = match opn {
                    "insert" | "remove" => {
                        if eret == -1 {
                            -1
                        } else {
                            0
                        }
                    }
                    "get" | "get_mut" | "index" | "index_mut" => -2,
                    _ => eret,
                };
                let content_ok = ob.shape.is_empty() || inorder(&ob.shape) == inorder(&canon(&tr["t"]));
                let contract_ok = ob.ret == eret && ob.rv == erv && ob.len == elen && ob.set_ret == set_expected && ob.set_len == elen && content_ok;
                let shape_ok = ob.shape == canon(&tr["t"]);
                if !contract_ok {
                    n_contract += 1;
                } else if !shape_ok {
                    n_shape += 1;
                }
                if (!contract_ok || !shape_ok) && examples.len() < 5 {
                    examples.push(format!(
                        "{{\"class\":\"{}\",\"state\":{},\"op\":{},\"expected\":{{\"ret\":{},\"rv\":{},\"len\":{},\"t\":{}}},\"got\":{{\"ret\":{},\"rv\":{},\"len\":{},\"set_ret\":{},\"set_len\":{},\"t\":{}}}}}",
                        if !contract_ok { "contract" } else { "shape" },
                        canon(&v["t"]), canon(o), eret, erv, elen, canon(&tr["t"]), ob.ret, ob.rv, ob.len, ob.set_ret, ob.set_len, ob.shape
                    ));
                }
            }
        } else {
            for tr in v["itrans"].as_array().unwrap() {
                n_trans += 1;
                let mut r = build();
                let ob = apply(&mut r, &Step::Iter(tr["back"].as_bool().unwrap()));
                let (ek, ev, erem) = (tr["k"].as_i64().unwrap(), tr["v"].as_i64().unwrap(), tr["rem"].as_i64().unwrap());
                if !(ob.ret == ek && ob.rv == ev && ob.len == erem && ob.set_ret == ek && ob.set_len == erem) {
                    n_contract += 1;
                    if examples.len() < 5 {
                        examples.push(format!("{{\"class\":\"contract\",\"iter_state\":{},\"back\":{},\"expected\":[{},{},{}],\"got\":[{},{},{},{},{}]}}", canon(&v["t"]), tr["back"], ek, ev, erem, ob.ret, ob.rv, ob.len, ob.set_ret, ob.set_len));
                    }
                }
                // dropping a partly consumed iterator must be harmless
                drop(r);
            }
        }
    }
    let _ = shape_set;
    println!(
        "{{\"states\":{},\"transitions\":{},\"contract_mismatches\":{},\"shape_mismatches\":{},\"unreached\":{},\"reference_checks\":{},\"reference_mismatches\":{},\"examples\":[{}]}}",
        states.len(), n_trans, n_contract, n_shape, n_unreached, n_refchecks, n_ref, examples.join(",")
    );
}

/// Random histories of the real map, one ndjson line per history. Events carry op, key, value,
/// return value(s), len and the Debug shape; `hold`/`check` events test reference stability:
/// `hold` takes `find_key(k)` and keeps the raw address, `check` (after further lookups only)
/// re-reads through the kept address and reports what it found and the address a fresh lookup gives.
pub fn histories(runs: u64, len: usize, keys: i64, seed: u64) {
    for run in 0..runs {
        let mut rng = Rng::new(seed.wrapping_mul(7_777_777).wrapping_add(run));
        let mut t: Tree = SplayTree::new(cmp_i as fn(&i64, &i64) -> Ordering);
        let mut ev: Vec<String> = vec![];
        let mut vc = 0i64;
        let mut held: Option<(i64, *const i64)> = None;
        // which keys were inserted and not removed - only used to CHOOSE an operation (Index needs a
        // stored key); asking the tree itself would splay it behind the recorded history's back
        let mut present: std::collections::BTreeSet<i64> = std::collections::BTreeSet::new();
        let mut i = 0;
        while i < len {
            i += 1;
            let k = rng.range(0, keys + 1);
            let o = rng.below(16);
            let mut e = String::new();
            match o {
                0 | 1 | 2 => {
                    vc += 1;
                    held = None;
                    let r = t.insert(k, vc).unwrap_or(-1);
                    present.insert(k);
                    let _ = write!(e, "{{\"op\":\"insert\",\"k\":{},\"v\":{},\"ret\":{},\"rv\":-1", k, vc, r);
                }
                3 | 4 => {
                    held = None;
                    let r = t.remove(&k).unwrap_or(-1);
                    present.remove(&k);
                    let _ = write!(e, "{{\"op\":\"remove\",\"k\":{},\"v\":0,\"ret\":{},\"rv\":-1", k, r);
                }
                5 => {
                    let _ = write!(e, "{{\"op\":\"get\",\"k\":{},\"v\":0,\"ret\":{},\"rv\":-1", k, t.get(&k).copied().unwrap_or(-1));
                }
                6 => {
                    let _ = write!(e, "{{\"op\":\"find\",\"k\":{},\"v\":0,\"ret\":{},\"rv\":-1", k, t.find_key(&k).copied().unwrap_or(-1));
                }
                7 => {
                    let _ = write!(e, "{{\"op\":\"contains\",\"k\":{},\"v\":0,\"ret\":{},\"rv\":-1", k, t.contains(&k) as i64);
                }
                8 => {
                    let x = t.next(&k).map(|kv| (*kv.0, *kv.1));
                    let _ = write!(e, "{{\"op\":\"next\",\"k\":{},\"v\":0,\"ret\":{},\"rv\":{}", k, x.map(|p| p.0).unwrap_or(-1), x.map(|p| p.1).unwrap_or(-1));
                }
                9 => {
                    let x = t.prev(&k).map(|kv| (*kv.0, *kv.1));
                    let _ = write!(e, "{{\"op\":\"prev\",\"k\":{},\"v\":0,\"ret\":{},\"rv\":{}", k, x.map(|p| p.0).unwrap_or(-1), x.map(|p| p.1).unwrap_or(-1));
                }
                10 => {
                    let _ = write!(e, "{{\"op\":\"min\",\"k\":0,\"v\":0,\"ret\":{},\"rv\":-1", t.min().copied().unwrap_or(-1));
                }
                11 => {
                    let _ = write!(e, "{{\"op\":\"max\",\"k\":0,\"v\":0,\"ret\":{},\"rv\":-1", t.max().copied().unwrap_or(-1));
                }
                12 if rng.chance(1, 3) => {
                    // the value slot handed out by get_mut / IndexMut, and Index / is_empty
                    match rng.below(4) {
                        0 => {
                            vc += 1;
                            held = None;
                            let old = match t.get_mut(&k) {
                                Some(slot) => {
                                    let o = *slot;
                                    *slot = vc;
                                    o
                                }
                                None => -1,
                            };
                            let _ = write!(e, "{{\"op\":\"get_mut\",\"k\":{},\"v\":{},\"ret\":{},\"rv\":-1", k, vc, old);
                        }
                        1 if present.contains(&k) => {
                            vc += 1;
                            held = None;
                            // Index / IndexMut panic on an absent key: if the tree has LOST a key that was stored, that panic is
                            // data (recorded as the return value -2, which no contract accepts), not a harness failure
                            let old = std::panic::catch_unwind(std::panic::AssertUnwindSafe(|| {
                                let o = t[&k];
                                t[&k] = vc;
                                o
                            }))
                            .unwrap_or(-2);
                            let _ = write!(e, "{{\"op\":\"index_mut\",\"k\":{},\"v\":{},\"ret\":{},\"rv\":-1", k, vc, old);
                        }
                        2 if present.contains(&k) => {
                            let got = std::panic::catch_unwind(std::panic::AssertUnwindSafe(|| t[&k])).unwrap_or(-2);
                            let _ = write!(e, "{{\"op\":\"index\",\"k\":{},\"v\":0,\"ret\":{},\"rv\":-1", k, got);
                        }
                        _ => {
                            let _ = write!(e, "{{\"op\":\"is_empty\",\"k\":0,\"v\":0,\"ret\":{},\"rv\":-1", t.is_empty() as i64);
                        }
                    }
                }
                12 => {
                    if rng.chance(1, 6) {
                        held = None;
                        t.clear();
                        present.clear();
                        let _ = write!(e, "{{\"op\":\"clear\",\"k\":0,\"v\":0,\"ret\":-1,\"rv\":-1");
                    } else {
                        let _ = write!(e, "{{\"op\":\"len\",\"k\":0,\"v\":0,\"ret\":{},\"rv\":-1", t.len());
                    }
                }
                13 => {
                    // take a reference and keep its address
                    match t.find_key(&k) {
                        Some(r) => {
                            held = Some((k, r as *const i64));
                            let _ = write!(e, "{{\"op\":\"hold\",\"k\":{},\"v\":0,\"ret\":{},\"rv\":-1", k, k);
                        }
                        None => {
                            let _ = write!(e, "{{\"op\":\"find\",\"k\":{},\"v\":0,\"ret\":-1,\"rv\":-1", k);
                        }
                    }
                }
                _ => {
                    // re-read through the kept address after the lookups made since
                    if let Some((hk, p)) = held {
                        let seen = unsafe { std::ptr::read_volatile(p) };
                        let again = t.find_key(&hk).map(|r| r as *const i64);
                        let same = again == Some(p);
                        let seen2 = unsafe { std::ptr::read_volatile(p) };
                        let _ = write!(e, "{{\"op\":\"check\",\"k\":{},\"v\":0,\"ret\":{},\"rv\":{},\"same\":{}", hk, seen, seen2, same);
                    } else {
                        let _ = write!(e, "{{\"op\":\"len\",\"k\":0,\"v\":0,\"ret\":{},\"rv\":-1", t.len());
                    }
                }
            }
            let _ = write!(e, ",\"len\":{},\"shape\":{}}}", t.len(), shape(&t));
            ev.push(e);
        }
        // finally: extend from a list, then consume the tree through the iterator in a mixed direction
        let ext: Vec<(i64, i64)> = (0..rng.below(4)).map(|_| (rng.range(0, keys + 1), 1000 + rng.range(0, 9))).collect();
        t.extend(ext.iter().cloned());
        ev.push(format!("{{\"op\":\"extend\",\"k\":0,\"v\":0,\"ret\":-1,\"rv\":-1,\"items\":[{}],\"len\":{},\"shape\":{}}}",
            ext.iter().map(|p| format!("[{},{}]", p.0, p.1)).collect::<Vec<_>>().join(","), t.len(), shape(&t)));
        let total = t.len();
        let mut it = t.into_iter();
        let take = if rng.chance(1, 3) { rng.below(total as u64 + 1) as usize } else { total + 1 };
        for _ in 0..take {
            let back = rng.chance(1, 2);
            if rng.chance(1, 4) {
                // the derived forms: nth / nth_back (skip and step_by are built on them), also past the end
                let n = if rng.chance(1, 4) { it.len() + rng.below(2) as usize } else { rng.below(3) as usize };
                let x = if back { it.nth_back(n) } else { it.nth(n) };
                ev.push(format!("{{\"op\":\"{}\",\"k\":{},\"v\":0,\"ret\":{},\"rv\":{},\"len\":{},\"shape\":[]}}", if back { "iter_nth_back" } else { "iter_nth" }, n,
                    x.map(|p| p.0).unwrap_or(-1), x.map(|p| p.1).unwrap_or(-1), it.len()));
                continue;
            }
            let x = if back { it.next_back() } else { it.next() };
            ev.push(format!("{{\"op\":\"{}\",\"k\":0,\"v\":0,\"ret\":{},\"rv\":{},\"len\":{},\"shape\":[]}}", if back { "iter_back" } else { "iter_next" },
                x.map(|p| p.0).unwrap_or(-1), x.map(|p| p.1).unwrap_or(-1), it.size_hint().0));
        }
        drop(it);
        println!("{{\"id\":{},\"keys\":{},\"events\":[{}]}}", run + 1, keys, ev.join(","));
    }
}
