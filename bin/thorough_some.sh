#!/bin/bash
# thorough commands of the checks named in $CHECKS, on the tree named by VP_RUN_REPO (development aid)
bin/setup > out_setup.log 2>&1 || true
for c in ${CHECKS:-C17 C12 C05 C09 C06 C14 C03}; do
  s=$(date +%s); bin/check $c thorough > thorough_$c.log 2>&1; echo "$c exit=$? $(( $(date +%s)-s ))s viol=$(grep -c '^VIOLATION' thorough_$c.log) known=$(grep -c '^KNOWN-FINDING' thorough_$c.log) tool=$(grep -c 'TOOL-ERROR' thorough_$c.log)"
done
