"""Checks for the public stages: C13 (queue filling + planar subdivision), C14 (classification),
C15 (the two orderings), C16 (pairwise intersection step)."""
import json
import os
import re
import time

import vlib
import model_sweep
from vlib import ToolError, log

MODEL_PLAN = {
    "C13": [("pair", 2, 840, 3000, 200, True, ["M_Subdivision", "M_StatusLineSorted", "M_NoPanic"]),
            ("gen:en:2x2:4/0:1_1:s", 2, 1, 128, 8, True, ["M_Subdivision", "M_StatusLineSorted", "M_NoPanic", "M_ResultRegion"])],
    "C14": [("pairB", 2, 840, 3000, 200, True, ["M_Classification", "M_NoPanic"]), ("nest2", 2, 840, 12, 2, True, ["M_Classification"]),
            ("star3", 2, 840, 40, 3, True, ["M_Classification", "M_Subdivision"]),
            ("gen:frames", 2, 1, 25, 300, True, ["M_Classification", "M_Subdivision", "M_Nesting"]), ("gen:en:3x2:4:0_0:s", 2, 1, 128, 8, True, ["M_Classification"]), ("gen:tshare", 2, 1, 25, 300, True, ["M_Classification", "M_Subdivision"]), ("gen:en:2x2:3:0_0:s", 2, 1, 2048, 64, True, ["M_Classification", "M_ResultRegion"])],
    "C15": [("quad", 2, 840, 200, 20, True, ["M_StatusLineSorted", "M_NoPanic"]), ("gen:lat", 2, 1, 40, 500, True, ["M_StatusLineSorted", "M_NoPanic", "M_Subdivision"])],
}

PROPS = ["C13", "C14", "C15", "C16"]

EXACT = "cx,rect,cxmix,cxshift,cxabut,cxsub,frames,pinch,holefill,teeth"
ROUND = "aff-cx,aff-cxmix,aff-cxshift,lat,tfan,fan"

CLAUSES = {"C13": ["fq", "sub"], "C14": ["cls"], "C15": ["evo", "sego"]}
INVS = {"fq": "C13_QueueFilling", "sub": "C13_PlanarSubdivision", "cls": "C14_Classification", "evo": "C15_EventOrder", "sego": "C15_SegmentOrder",
        "cls_stale_pir": "N3_NoStalePrevInResult", "sego_stacked_vertical": "N4_StackedVerticalsByPosition"}
# classes of recorded (open) findings: clause -> id in known_findings.json
KNOWN_CLASS = {"cls_stale_pir": "N3", "sego_stacked_vertical": "N4"}

ASSUME = [
    "operands valid by construction; the stages are observed through the public API only (fill_queue, subdivide, Ord on SweepEvent, compare_segments, possible_intersection and the SweepEvent getters)",
    "robust domains: lattice inputs whose exact intersection points are integral (|coordinate| <= 2^12); octilinear integer inputs are required to be exact, other lattice inputs within tolerance",
    "C14 is evaluated on sub-segments that are atoms of the input arrangement (both side points clear); coincident twins by the pair clause",
]


def plan(prop, tier):
    q = tier == "quick"
    if prop == "C13":
        return [("f64", EXACT + "," + ROUND, 90 if q else 900, 3 if q else 4, 70 if q else 110, 12), ("f32", EXACT, 20 if q else 200, 3, 60, 12),
                ("f64", "tfan,fan,tfan", 90 if q else 900, 3, 60, 12), ("f64", "cx,cxsub,cx,cxabut", 160 if q else 1600, 4, 90, 8), ("f64", "tshare,hang,cxsplit", 150 if q else 1500, 3, 60, 8),
                ("f64", EXACT + "," + ROUND, 40 if q else 400, 3, 60, 8, "frames"), ("f32", EXACT, 15 if q else 150, 3, 50, 8, "frames"),
                ("enum", "en:3x2:4:0_0:s", 32 if q else 2, 8), ("enum", "en:2x2:3:0_0:s", 512 if q else 32, 8), ("enum", "en:2x2:4/0:1_1:s", 32 if q else 2, 8), ("tri", 2, 840, 9 if q else 1)]
    if prop == "C14":
        return [("f64", EXACT + ",cx,rect", 110 if q else 1100, 3 if q else 4, 70 if q else 110, 6), ("f32", EXACT, 20 if q else 200, 3, 60, 6), ("f64", "tshare,tshare,cxsplit", 150 if q else 1500, 3, 60, 6),
                ("f64", EXACT + ",cx,rect", 25 if q else 250, 3, 60, 6, "frames"),
                ("enum", "en:3x2:4:0_0:k", 32 if q else 2, 6), ("enum", "en:2x1:2:0_0:s", 512 if q else 32, 6), ("enum", "en:3x3:4:0_0:s", 2048 if q else 128, 6), ("tri", 2, 840, 9 if q else 1)]
    if prop == "C15":
        return [("f64", EXACT + "," + ROUND, 70 if q else 700, 3 if q else 4, 60 if q else 100, 36 if q else 60), ("f32", EXACT, 15 if q else 150, 3, 50, 36),
                ("f64", EXACT + "," + ROUND, 20 if q else 200, 3, 50, 30, "frames"),
                ("enum", "en:2x2:3:0_0:s", 1024 if q else 64, 30), ("enum", "en:2x2:4/0:1_1:s", 64 if q else 4, 30), ("tri", 2, 840, 13 if q else 2)]
    raise ToolError("no plan for " + prop)


def record(prop, tier, seed, wd):
    path = os.path.join(wd, "trace.ndjson")
    if os.path.exists(path):
        os.remove(path)
    rid0 = 1
    for bi, b in enumerate(plan(prop, tier)):
        bseed = (seed * 7919 + bi * 13 + sum(map(ord, prop))) % (1 << 31)
        tmp = os.path.join(wd, "b.tmp")
        if b[0] in ("f64", "f32"):
            _, fams, count, kmax, max_edges, matrix = b[:6]
            args = ["rec-stages", "--family", fams, "--count", count, "--seed", bseed, "--kmax", kmax, "--max-edges", max_edges, "--matrix", matrix, "--rid0", rid0]
            if b[0] == "f32":
                args.append("--f32")
            if len(b) > 6 and b[6] == "frames":
                # the same lattice operands handed over in power-of-two frames far from the unit scale (2^+-50..80, f32 2^+-18..30) and read
                # back exactly: whole operands shorter than the machine epsilon
                args += ["--frames", 1]
            vlib.vh(args, tmp)
        elif b[0] == "enum":
            # every stride-th operand pair of an enumerated family (gen.rs `en:...`), all four operations
            _, fam, stride, matrix = b
            total = int(vlib.vh_out(["enum-total", "--family", fam]))
            start = bseed % stride
            vlib.vh(["rec-stages", "--family", fam, "--count", (total - start + stride - 1) // stride, "--seed", bseed, "--kmax", 3, "--max-edges", 400,
                     "--matrix", matrix, "--rid0", rid0, "--enum-from", start, "--enum-stride", stride], tmp)
        else:
            _, n, l, stride = b
            vlib.vh(["rec-stages-tri", "--n", n, "--l", l, "--from", bseed % stride, "--stride", stride, "--matrix", 24, "--rid0", rid0], tmp)
        k = 0
        with open(tmp) as f, open(path, "a") as g:
            for line in f:
                g.write(line)
                k += 1
        os.remove(tmp)
        rid0 += k
    return path


def run_stage_prop(prop, tier, seed, t0):
    wd = os.path.join(vlib.OUT, prop)
    os.makedirs(wd, exist_ok=True)
    trace = record(prop, tier, seed, wd)
    # Layer M first: the model's own inputs are appended to the recorded runs, so that the real
    # code's stages on exactly these inputs are judged by the Layer P stage contracts as well
    layer_m = []
    strict_rids = set()     # Layer M inputs on which the transcription itself records NO stale prev_in_result
    rid0 = 1 + sum(1 for _ in open(trace))
    for mi, (fam, n, l, sq, st, sc, invs) in enumerate(MODEL_PLAN.get(prop, [])):
        stride = sq if tier == "quick" else st
        mwd = os.path.join(vlib.OUT, prop, "model-%d-%s" % (mi, fam.replace(":", "_").replace("/", "_")))
        if fam.startswith("gen:"):
            # Layer M on the inputs of a generator family of the harness (MC_Sweep Family "file")
            r = model_sweep.model_and_replay(prop, mwd, generator=(fam[4:], stride, seed * 7 + mi), n=n, l=l, stride=1, offset=0, use_shortcuts=sc, invs=invs, timeout=10000)
        else:
            r = model_sweep.model_and_replay(prop, mwd, family=fam, n=n, l=l, stride=stride,
                                             offset=(seed * 7 + mi) % stride, use_shortcuts=sc, invs=invs, timeout=10000)
        inputs = r.pop("inputs")
        strict = r.pop("strict", [True] * len(inputs))
        r.update({"family": fam, "stride": stride, "invariants": invs})
        if inputs:
            src = os.path.join(mwd, "inputs.ndjson")
            with open(src, "w") as f:
                for (a, b, op) in inputs:
                    f.write(json.dumps({"A": a, "B": b, "op": op}, separators=(",", ":")) + "\n")
            tmp = os.path.join(mwd, "stages.tmp")
            vlib.vh(["stage-inputs", "--file", src, "--rid0", rid0, "--matrix", 12, "--family", "layerM/" + fam.replace("gen:", "gen/")], tmp)
            with open(tmp) as f, open(trace, "a") as g:
                for k, line in enumerate(f):
                    g.write(line)
                    if k < len(strict) and strict[k]:
                        strict_rids.add(rid0)
                    rid0 += 1
            os.remove(tmp)
            r["runs_to_contract"] = len(inputs)
        layer_m.append({k: v for k, v in r.items() if k != "labels"})
    clauses = CLAUSES[prop]
    invs = [INVS[c] for c in clauses] + (["N3_NoStalePrevInResult"] if prop == "C14" else []) + (["N4_StackedVerticalsByPosition"] if prop == "C15" else [])
    cfg = "SPECIFICATION Spec\nCONSTANT Clauses = {%s}\nINVARIANTS\n%s\nCHECK_DEADLOCK TRUE\n" % (",".join('"%s"' % c for c in clauses), "\n".join("  " + i for i in invs))
    out, dt = vlib.run_tlc_trace("TraceStages.tla", cfg, os.path.join(wd, "tlc"), trace, timeout=7200 if tier == "thorough" else 1500)
    res = vlib.parse_tlc(out, set(INVS.values()))
    if res["tool_errors"]:
        raise ToolError("TraceStages: %s" % res["tool_errors"][:3])
    fails = {(c, int(r)) for (c, r) in re.findall(r'<<"STAGEFAIL", "(\w+)", (\d+)>>', out)}
    if bool(fails) != bool(res["violated"]):
        raise ToolError("inconsistent TraceStages output")
    runs = vlib.load_sessions(trace)
    by = {r["rid"]: r for r in runs}
    known = {k.get("id"): k for k in vlib.load_known() if k.get("status") == "open"}
    nviol = 0
    kcount = {}
    os.makedirs(os.path.join(vlib.OUT, "replays"), exist_ok=True)
    for (c, rid) in sorted(fails):
        # the recorded finding N3 (stale inherited prev_in_result) is a property of the PINNED mechanism: on the inputs of Layer M
        # the transcription says whether that mechanism produces a stale pointer at all; where it does not, a stale pointer
        # recorded by the code is not N3 but a new violation of the clause
        if c in KNOWN_CLASS and KNOWN_CLASS[c] in known and not (c == "cls_stale_pir" and rid in strict_rids):
            kcount[c] = kcount.get(c, 0) + 1
            continue
        r = by[rid]
        p = os.path.join(vlib.OUT, "replays", "%s-%s-%d.json" % (prop, c, rid))
        json.dump(r, open(p, "w"))
        log("VIOLATION property=%s replay=%s" % (prop, p))
        log("  clause=%s family=%s op=%s F=%s seed=%s A=%s B=%s" % (c, r["family"], r["op"], r["F"], r["seed"], json.dumps([[[q[:2] for q in rg] for rg in pl] for pl in r["A"]])[:200], json.dumps([[[q[:2] for q in rg] for rg in pl] for pl in r["B"]])[:200]))
        nviol += 1
    for c, n in kcount.items():
        k = known[KNOWN_CLASS[c]]
        log("KNOWN-FINDING: property=%s %s (%d of %d runs in this batch)" % (prop, k["what"], n, len(runs)))
    exact_order = []
    if prop == "C15":
        # exact pass: pairs of FLOAT events at one point whose edges are nearly (not exactly) collinear - the tip of a valid sliver -
        # in power-of-two frames, both orders of Ord::cmp and compare_segments decided exactly on the bit patterns
        # (TraceOrderExact.tla / FloatGeometry.tla); the lattice families above cannot express such a pair
        for ftype, nex in (("f64", 30000 if tier == "quick" else 600000), ("f32", 15000 if tier == "quick" else 300000)):
            epath = os.path.join(wd, "ordexact-%s.ndjson" % ftype)
            vlib.vh(["float-order-exact", "--count", nex, "--seed", seed + 17] + (["--f32"] if ftype == "f32" else []), epath)
            cfg4 = "SPECIFICATION Spec\nINVARIANTS\n C15_ExactOnFloats\n HarnessHonest\nCHECK_DEADLOCK TRUE\n"
            out4, dt4 = vlib.run_tlc_trace("TraceOrderExact.tla", cfg4, os.path.join(wd, "trordexact-" + ftype), epath, timeout=6000)
            res4 = vlib.parse_tlc(out4, {"C15_ExactOnFloats", "HarnessHonest"})
            if res4["tool_errors"] or "HarnessHonest" in res4["violated"]:
                raise ToolError("TraceOrderExact: %s %s" % (res4["tool_errors"][:3], res4["violated"]))
            verdicts = re.findall(r'<<"ORDEXACT", "(\w+)", (\d+), (-?\d+)>>', out4)
            bad = sorted({int(i) for (k, i, o) in verdicts if k == "fail"})
            skipped = {int(i) for (k, i, o) in verdicts if k == "skip"}
            if bool(bad) != ("C15_ExactOnFloats" in res4["violated"]):
                raise ToolError("inconsistent TraceOrderExact output")
            erecs = {r["id"]: r for r in vlib.load_sessions(epath)}
            nrec = len(erecs)
            # anti-vacuity: pairs that a naive float cross product calls collinear although the exact determinant is not zero
            nnear = sum(1 for r in erecs.values() if r["nc"] and r["mode"] != 7 and r["id"] not in skipped)
            if nrec < nex // 4 or nnear * 50 < nrec:
                raise ToolError("vacuity: %d float event pairs, %d of them collinear for naive float arithmetic only" % (nrec, nnear))
            for fid in bad[:10]:
                p = os.path.join(vlib.OUT, "replays", "C15-ordexact-%s-%d.json" % (ftype, fid))
                json.dump(erecs[fid], open(p, "w"))
                log("VIOLATION property=C15 replay=%s" % p)
                log("  float event pair (mode %s) %s" % (erecs[fid]["mode"], json.dumps(erecs[fid])[:400]))
            nviol += len(bad)
            res["distinct"] += res4["distinct"]
            res["generated"] += res4["generated"]
            exact_order.append({"exact_float_event_pairs": nrec, "F": ftype, "failures": len(bad), "collinear_for_naive_float_arithmetic_only": nnear,
                                "exactly_collinear_same_operand_skipped": len(skipped), "tlc_s": round(dt4, 1)})
            log("[C15] exact pass %s: %d float event pairs at a common point decided exactly on their bit patterns: %d failures, %d collinear only for naive float arithmetic, %d not judged" % (ftype, nrec, len(bad), nnear, len(skipped)))
            os.remove(epath)
    for r in layer_m:
        res["distinct"] += r["states"]
        res["generated"] += r["transitions"]
    nsub = sum(len([e for e in r["sub"]["ev"] if e[4] == 1]) for r in runs)
    nontriv = len({(json.dumps(r["A"]), json.dumps(r["B"]), r["op"], r["F"]) for r in runs if r["sub"]["popped"] > len(r["fq"]["ev"])})
    cov = {
        "states": res["distinct"], "transitions": res["generated"], "traces_validated_against_impl": len(runs) - len({r for (c, r) in fails if c not in KNOWN_CLASS}),
        "samples": [{k: (v if k not in ("cmp0", "cmp1", "seg", "seg0") else "...") for k, v in runs[0].items()}] if runs else [],
        "evaluations": len(runs), "distinct_nontrivial": nontriv, "sub_segments_judged": nsub,
        "order_pairs_judged": sum(len(r["cmp0"]["pairs"]) + len(r["cmp1"]["pairs"]) + len(r["seg"]) + len(r["seg0"]) for r in runs) if prop == "C15" else 0,
        "rule": "one evaluation = one recorded run of fill_queue + subdivide (+ order matrices) on an operand pair and operation; non-trivial = subdivision processed more events than queue filling created (at least one division)",
        "clauses": clauses, "known_finding_runs": kcount, "tlc_seconds": round(dt, 1), "layer_m": layer_m, "exact_float_order_pass": exact_order,
    }
    vlib.write_evidence(prop, tier, seed, "model_checking", cov, time.time() - t0, nviol, ASSUME)
    log("[%s] %s: %d stage runs (%d sub-segments) judged by TLC in %.0fs, %d violations, known-finding runs %s, %.0fs" % (prop, tier, len(runs), nsub, dt, nviol, kcount, time.time() - t0))
    return 1 if nviol else 0


def run_c16(tier, seed, t0):
    wd = os.path.join(vlib.OUT, "C16")
    os.makedirs(wd, exist_ok=True)
    nviol = 0
    tot_states = tot_trans = tot = 0
    samples = []
    per = []
    for n in ([2, 3] if tier == "quick" else [2, 3, 4]):
        cfg = "SPECIFICATION Spec\nCONSTANT N = %d\nINVARIANTS\n SpecInterOK\n Emit\nCHECK_DEADLOCK FALSE\n" % n
        out, dt = vlib.run_tlc("MC_PI.tla", cfg, os.path.join(wd, "mc%d" % n), timeout=3000)
        res = vlib.parse_tlc(out, set())
        if res["tool_errors"] or res["violated"]:
            raise ToolError("MC_PI N=%d: %s" % (n, (res["tool_errors"] + res["violated"])[:3]))
        tuples = os.path.join(wd, "pi%d.ndjson" % n)
        k = 0
        seen = set()
        with open(tuples, "w") as f:
            for line in out.splitlines():
                if line.startswith('<<"PI", "'):
                    s = line[len('<<"PI", "'):-3].encode().decode("unicode_escape")
                    if s in seen:
                        continue
                    seen.add(s)
                    k += 1
                    d = json.loads(s)
                    d["id"] = k
                    f.write(json.dumps(d, separators=(",", ":")) + "\n")
        passes = [("f64", 0, 0, False, 0), ("f32", 0, 0, False, 0)] if n <= 3 else [("f64", 0, 0, False, 0)]
        # the same tuples with a queue that already holds one event at an end point of the other segment
        # (same operand and contour as the segment to be divided there): what the step adds must not depend on it
        passes += [("f64", 0, 0, False, d) for d in ((1, 2, 3, 4) if n <= 3 else (3,))]
        # axis-parallel pairs again in non-representable frames (int/d, shifted): the split points must
        # still be bit-identical to the existing end points / the clamped crossing
        passes += [("f64", 1010, 0, True, 0), ("f64", 1003, 5, True, 0), ("f64", 1007, -3, True, 0), ("f64", 1049, 11, True, 0), ("f64", 1010, 37, True, 0), ("f32", 1010, 2, True, 0), ("f32", 1003, -7, True, 0)]
        for (ftype, frame, offset, only_axis, decoy) in passes:
            tag = "%s-fr%d-o%d" % (ftype, frame, offset) + ("-q%d" % decoy if decoy else "")
            recs = os.path.join(wd, "rec%d%s.ndjson" % (n, tag))
            vlib.vh(["replay-pi", "--file", tuples, "--frame", frame, "--offset", offset, "--decoy", decoy] + (["--f32"] if ftype == "f32" else []) + (["--only-axis"] if only_axis else []), recs)
            cfg2 = "SPECIFICATION Spec\nINVARIANT C16_IntersectionStep\nCHECK_DEADLOCK TRUE\n"
            out2, dt2 = vlib.run_tlc_trace("TracePI.tla", cfg2, os.path.join(wd, "tr%d%s" % (n, tag)), recs, timeout=3000)
            res2 = vlib.parse_tlc(out2, {"C16_IntersectionStep"})
            if res2["tool_errors"]:
                raise ToolError("TracePI: %s" % res2["tool_errors"][:3])
            fails = sorted({int(x) for x in re.findall(r'<<"PIFAIL", (\d+)>>', out2)})
            if bool(fails) != bool(res2["violated"]):
                raise ToolError("inconsistent TracePI output")
            rl = vlib.load_sessions(recs)
            byid = {r["id"]: r for r in rl}
            if not samples:
                samples = rl[:1] + rl[len(rl) // 2:len(rl) // 2 + 1]
            os.makedirs(os.path.join(vlib.OUT, "replays"), exist_ok=True)
            for fid in fails[:10]:
                r = byid[fid]
                p = os.path.join(vlib.OUT, "replays", "C16-N%d-%s-%d.json" % (n, tag, fid))
                json.dump(r, open(p, "w"))
                log("VIOLATION property=C16 replay=%s" % p)
                log("  frame=%d a=%s b=%s sa=%s sb=%s code=%s pushed=%s npoints=%s inbox=%s ev=%s" % (frame, r["a"], r["b"], r["sa"], r["sb"], r["code"], r["pushed"], r["npoints"], r["inbox"], json.dumps(r["ev"][4:])[:200]))
            nviol += len(fails)
            tot += len(rl)
            tot_states += res["distinct"] + res2["distinct"]
            tot_trans += res["generated"] + res2["generated"]
            per.append({"lattice": "%dx%d" % (n + 1, n + 1), "F": ftype, "frame": frame, "offset": offset, "queue_decoy": decoy, "tuples": len(rl), "failures": len(fails), "tlc_s": round(dt + dt2, 1)})
            log("[C16] lattice %dx%d %s: %d argument tuples replayed through possible_intersection, judged by TLC: %d failures" % (n + 1, n + 1, tag, len(rl), len(fails)))
            os.remove(recs)
        os.remove(tuples)
    # float pass: random float pairs meeting at / within a few ulps of an end point; float-decidable clauses only
    nfl = 60000 if tier == "quick" else 1500000
    fpath = os.path.join(wd, "float.ndjson")
    vlib.vh(["float-pi", "--count", nfl, "--seed", seed], fpath)
    cfg3 = "SPECIFICATION Spec\nINVARIANTS\n C16_FloatContainmentAndCommonPoint\n N2b_NoDivisionBump\nCHECK_DEADLOCK TRUE\n"
    out3, dt3 = vlib.run_tlc_trace("TracePIFloat.tla", cfg3, os.path.join(wd, "trfloat"), fpath, timeout=6000)
    res3 = vlib.parse_tlc(out3, {"C16_FloatContainmentAndCommonPoint", "N2b_NoDivisionBump"})
    if res3["tool_errors"]:
        raise ToolError("TracePIFloat: %s" % res3["tool_errors"][:3])
    ff = {(k, int(i)) for (k, i) in re.findall(r'<<"PIFLOATFAIL", "(\w+)", (\d+)>>', out3)}
    known = {k.get("id"): k for k in vlib.load_known() if k.get("status") == "open"}
    frecs = None
    nb = len([1 for (k, i) in ff if k == "pi_bump"])
    hard = sorted(i for (k, i) in ff if k == "pi")
    if nb and "N2b" not in known:
        hard += sorted(i for (k, i) in ff if k == "pi_bump")
    if hard:
        frecs = {r["id"]: r for r in vlib.load_sessions(fpath)}
        os.makedirs(os.path.join(vlib.OUT, "replays"), exist_ok=True)
        for fid in hard[:10]:
            p = os.path.join(vlib.OUT, "replays", "C16-float-%d.json" % fid)
            json.dump(frecs[fid], open(p, "w"))
            log("VIOLATION property=C16 replay=%s" % p)
            log("  float pair %s" % json.dumps(frecs[fid])[:300])
        nviol += len(hard)
    if nb and "N2b" in known:
        log("KNOWN-FINDING: property=C16 %s (%d of %d float pairs)" % (known["N2b"]["what"], nb, nfl))
    tot += nfl
    tot_states += res3["distinct"]
    tot_trans += res3["generated"]
    per.append({"float_pairs": nfl, "failures": len(hard), "bump_known_finding": nb, "tlc_s": round(dt3, 1)})
    log("[C16] float pass: %d float pairs judged on containment / common point: %d failures, %d documented one-ulp bumps" % (nfl, len(hard), nb))
    os.remove(fpath)
    # exact pass: float segment pairs in robust configurations far outside the integer domain (needles crossing at angles
    # down to 2^-30, coordinates up to 2^30 in power-of-two frames, exact T-touches, common end points), every clause of
    # the statement decided exactly on the bit patterns (TracePIExact.tla / FloatGeometry.tla)
    for ftype, nex in (("f64", 40000 if tier == "quick" else 1000000), ("f32", 20000 if tier == "quick" else 500000)):
        epath = os.path.join(wd, "exact-%s.ndjson" % ftype)
        vlib.vh(["float-pi-exact", "--count", nex, "--seed", seed + 11] + (["--f32"] if ftype == "f32" else []), epath)
        cfg4 = "SPECIFICATION Spec\nINVARIANTS\n C16_ExactOnFloats\n HarnessHonest\nCHECK_DEADLOCK TRUE\n"
        out4, dt4 = vlib.run_tlc_trace("TracePIExact.tla", cfg4, os.path.join(wd, "trexact-" + ftype), epath, timeout=6000)
        res4 = vlib.parse_tlc(out4, {"C16_ExactOnFloats", "HarnessHonest"})
        if res4["tool_errors"] or "HarnessHonest" in res4["violated"]:
            raise ToolError("TracePIExact: %s %s" % (res4["tool_errors"][:3], res4["violated"]))
        verdicts = re.findall(r'<<"PIEXACT", "(\w+)", (\d+)>>', out4)
        bad = sorted({int(i) for (k, i) in verdicts if k == "fail"})
        nskip = len({int(i) for (k, i) in verdicts if k == "skip"})
        if bool(bad) != ("C16_ExactOnFloats" in res4["violated"]):
            raise ToolError("inconsistent TracePIExact output")
        nrec = sum(1 for _ in open(epath))
        if nskip * 10 > nrec:
            raise ToolError("vacuity: %d of %d float pairs were not robust configurations" % (nskip, nrec))
        if bad:
            erecs = {r["id"]: r for r in vlib.load_sessions(epath)}
            os.makedirs(os.path.join(vlib.OUT, "replays"), exist_ok=True)
            for fid in bad[:10]:
                p = os.path.join(vlib.OUT, "replays", "C16-exact-%s-%d.json" % (ftype, fid))
                json.dump(erecs[fid], open(p, "w"))
                log("VIOLATION property=C16 replay=%s" % p)
                log("  float pair (mode %s) %s" % (erecs[fid]["mode"], json.dumps(erecs[fid])[:400]))
            nviol += len(bad)
        tot += nrec
        tot_states += res4["distinct"]
        tot_trans += res4["generated"]
        per.append({"exact_float_pairs": nrec, "F": ftype, "failures": len(bad), "not_robust_skipped": nskip, "tlc_s": round(dt4, 1)})
        log("[C16] exact pass %s: %d float pairs decided exactly on their bit patterns: %d failures, %d not robust (skipped)" % (ftype, nrec, len(bad), nskip))
        os.remove(epath)
    cov = {"states": tot_states, "transitions": tot_trans, "traces_validated_against_impl": tot - nviol, "samples": samples,
           "evaluations": tot, "distinct_nontrivial": tot, "exhaustive": True, "per_lattice": per,
           "rule": "every ordered pair of non-degenerate lattice segments (left end first), scaled by its own determinant, with operand/in-out flag combinations for overlapping pairs; each tuple is one real call of possible_intersection"}
    vlib.write_evidence("C16", tier, seed, "model_checking", cov, time.time() - t0, nviol,
                        ["events are built with the public SweepEvent constructor/setters as subdivide does; coordinates after scaling <= 2^7 (the statement's 2^25 integer range and arbitrary floats are outside what TLC decides, see DESIGN section 8)",
                         "exact meeting point computed by Geometry!SegInter in integers; tolerance as in C04"])
    log("[C16] %s: %d tuples, %d violations, %.0fs" % (tier, tot, nviol, time.time() - t0))
    return 1 if nviol else 0


def run(prop, tier, seed, t0):
    if prop == "C16":
        return run_c16(tier, seed, t0)
    return run_stage_prop(prop, tier, seed, t0)


def replay(prop, path, seed):
    log("[%s] replay files are literal recorded runs (inputs A, B, op inside); re-run the check to reproduce" % prop)
    return run(prop, "quick", seed, time.time())
