"""Shared orchestration for /verif/bin/check: build the harness from /repo's working tree,
record traces with it, validate them with TLC, turn the outcome into evidence + exit code.

Exit codes: 0 property held on everything explored (KNOWN-FINDING / SPEC-DRIFT lines allowed),
            1 at least one `VIOLATION property=<id> replay=<path>` line,
            2 tool error (build, TLC parse/overflow/domain error, time-out, vacuity)."""
import hashlib
import json
import os
import re
import subprocess
import sys
import time

VERIF = os.path.dirname(os.path.dirname(os.path.abspath(__file__)))
HARNESS = os.path.join(VERIF, "harness")
SPEC = os.path.join(VERIF, "spec")
OUT = os.path.join(VERIF, "out")
EVID = os.path.join(VERIF, "evidence")
CORPUS = os.path.join(VERIF, "corpus")
# the tree under test: /repo, or the snapshot of a `vp run --with-repo` background run
REPO = os.environ.get("VP_RUN_REPO", "/repo")
KNOWN = os.path.join(VERIF, "known_findings.json")
TLC_WORKERS = int(os.environ.get("VERIF_TLC_WORKERS", "12"))


class ToolError(Exception):
    pass


def log(*a):
    print(*a, flush=True)


def sh(cmd, timeout=None, env=None, cwd=None, stdout=None):
    e = dict(os.environ)
    e.update({"CARGO_NET_OFFLINE": "true"})
    if env:
        e.update(env)
    return subprocess.run(cmd, shell=isinstance(cmd, str), cwd=cwd, env=e, timeout=timeout,
                          stdout=stdout if stdout is not None else subprocess.PIPE,
                          stderr=subprocess.STDOUT if stdout is None else subprocess.PIPE, text=True)


_built = {}


def build_harness(profile="release"):
    """(Re)build the harness against /repo's current working tree; returns the vh binary path."""
    if profile in _built:
        return _built[profile]
    t0 = time.time()
    flag = "--release" if profile == "release" else "--profile " + profile
    if REPO != "/repo":
        # a `vp run --with-repo` snapshot: build against that copy instead of /repo (cargo path override)
        flag += " --config 'paths=[\"%s/lib\"]'" % REPO
    r = sh("cargo build --offline %s 2>&1" % flag, cwd=HARNESS, timeout=1200)
    if r.returncode != 0:
        sys.stdout.write(r.stdout[-4000:])
        raise ToolError("harness build failed (profile %s)" % profile)
    path = os.path.join(HARNESS, "target", profile, "vh")
    if not os.path.exists(path):
        raise ToolError("harness binary missing: " + path)
    _built[profile] = path
    log("[build] harness profile=%s %.1fs" % (profile, time.time() - t0))
    return path


def vh(args, outfile, profile="release", timeout=1800, append=False):
    """Run the harness, writing its stdout (ndjson) to outfile."""
    binp = build_harness(profile)
    os.makedirs(os.path.dirname(outfile), exist_ok=True)
    skip = 0
    first = True
    while True:
        extra = ["--skip", str(skip)] if skip else []
        with open(outfile, "a" if (append or not first) else "w") as f:
            try:
                r = subprocess.run([binp] + [str(a) for a in args] + extra, stdout=f, stderr=subprocess.PIPE, text=True, timeout=timeout)
            except subprocess.TimeoutExpired:
                raise ToolError("harness %s timed out after %ds" % (args[0], timeout))
        first = False
        m = re.search(r"RESUME (\d+)", r.stderr or "")
        if r.returncode == 3 and m:
            # a library call never returned (recorded as outcome "timeout"); the recorder stopped
            # after that session because the runaway thread cannot be killed - restart behind it
            skip = int(m.group(1))
            continue
        if r.returncode != 0:
            raise ToolError("harness %s failed (%d): %s" % (args[0], r.returncode, r.stderr[-2000:]))
        break


def vh_out(args, profile="release", timeout=120):
    """Run the harness and return its (small) stdout as text."""
    binp = build_harness(profile)
    r = subprocess.run([binp] + [str(a) for a in args], stdout=subprocess.PIPE, stderr=subprocess.PIPE, text=True, timeout=timeout)
    if r.returncode != 0:
        raise ToolError("harness %s failed (%d): %s" % (args[0], r.returncode, r.stderr[-2000:]))
    return r.stdout.strip()


ALL_INV = {
    "C01": "C01_ResultRegion", "C02": "C02_ValidPolygonSet", "C03": "C03_EveryCallReturns",
    "C04": "C04_GeometryFromInputs", "C05": "C05_FourOpsConsistent", "C06": "C06_SetAlgebraLaws",
    "C07": "C07_RepresentationFree", "C08": "C08_SimilarityCommutes", "C09": "C09_FarPartsLocal",
    "C10": "C10_PrecisionsAgree", "C11": "C11_ChainedAlgebra", "C12": "C12_PureDeterministic",
}


def ensure_overrides():
    """Compile the TLC module override of FloatGeometry.tla (spec/FloatGeometry.java -> .class next to the
    specification, where TLC looks for it) if it is missing or older than its source."""
    src, cls = os.path.join(SPEC, "FloatGeometry.java"), os.path.join(SPEC, "FloatGeometry.class")
    if os.path.exists(cls) and os.path.getmtime(cls) >= os.path.getmtime(src):
        return
    r = sh("javac -cp /opt/veriftools/tla/tla2tools.jar -d . FloatGeometry.java 2>&1", cwd=SPEC, timeout=300)
    if r.returncode != 0 or not os.path.exists(cls):
        raise ToolError("javac FloatGeometry.java failed: %s" % (r.stdout or "")[-1500:])


def run_tlc(spec, cfg_text, workdir, env=None, timeout=3600, workers=None, extra=None, java_opts="-Xss512m"):
    """Run TLC on spec (a file in SPEC) with the given cfg text. Returns (output, seconds)."""
    ensure_overrides()
    os.makedirs(workdir, exist_ok=True)
    cfg = os.path.join(workdir, "model.cfg")
    with open(cfg, "w") as f:
        f.write(cfg_text)
    e = {"JAVA_TOOL_OPTIONS": java_opts}
    if env:
        e.update(env)
    # java is started directly (same class path as the `tlc` wrapper) so that -Xss is on the COMMAND LINE: the launcher
    # sizes the main thread's stack from there, and TLC computes initial states (one per recorded run / model input,
    # with deep recursive operators) on the main thread; JAVA_TOOL_OPTIONS alone only reaches the worker threads
    cmd = ["timeout", str(timeout), "java", "-XX:+UseParallelGC", "-Xss1g", "-cp", "/opt/veriftools/tla/tla2tools.jar:/opt/veriftools/tla/CommunityModules-deps.jar", "tlc2.TLC", "-workers", str(workers or TLC_WORKERS), "-metadir", os.path.join(workdir, "states"),
           "-cleanup", "-noGenerateSpecTE", "-continue", "-config", cfg] + (extra or []) + [os.path.join(SPEC, spec)]
    t0 = time.time()
    r = sh(cmd, env=e, cwd=SPEC)
    dt = time.time() - t0
    with open(os.path.join(workdir, "tlc.log"), "w") as f:
        f.write(r.stdout)
    subprocess.run(["rm", "-rf", os.path.join(workdir, "states")])
    if r.returncode == 124:
        raise ToolError("TLC timed out after %ds in %s" % (timeout, workdir))
    return r.stdout, dt


def parse_tlc(out, allowed_invariants):
    """Common parsing: state counts, invariant violations, tool errors."""
    res = {"generated": 0, "distinct": 0, "violated": [], "tool_errors": []}
    m = re.findall(r"(\d+) states generated, (\d+) distinct states found", out)
    if m:
        # one final line per TLC run; `out` may be the concatenation of several runs (run_tlc_trace)
        res["generated"], res["distinct"] = sum(int(x[0]) for x in m), sum(int(x[1]) for x in m)
    for line in out.splitlines():
        if line.startswith("Error:"):
            mm = re.match(r"Error: Invariant (\w+) is violated", line)
            if mm:
                res["violated"].append(mm.group(1))
                if mm.group(1) not in allowed_invariants:
                    res["tool_errors"].append(line)
            elif "The behavior up to this point is" in line:
                pass
            else:
                res["tool_errors"].append(line)
    if "Model checking completed" not in out and "Finished in" not in out:
        res["tool_errors"].append("TLC did not finish: " + out[-600:])
    if out.count("TLC2 Version") != out.count("Finished in"):
        res["tool_errors"].append("a TLC run of %d did not finish" % out.count("TLC2 Version"))
    return res


def run_tlc_trace(spec, cfg_text, workdir, tracefile, timeout=3600, **kw):
    """run_tlc on a trace file of independent records (one initial state each), in pieces of at
    most ~12 MB: TLC's JSON module holds the whole file as one value. Outputs are concatenated
    (record ids are global, so the marker lines stay valid); returns (output, total seconds)."""
    outs, total = [], 0.0
    parts = chunk_file(tracefile)
    for part in parts:
        o, d = run_tlc(spec, cfg_text, workdir, env={"TRACEFILE": part}, timeout=timeout, **kw)
        outs.append(o)
        total += d
        if part != tracefile:
            os.remove(part)
    return "\n".join(outs), total


def validate_ops(tracefile, laws, onlyf, workdir, timeout=3600):
    """Validate recorded sessions against TraceOps with the given laws.
    Returns dict(lawfails=set((law,sid,l)), generated, distinct, seconds)."""
    invs = [ALL_INV[l] for l in sorted(laws)] + ["HarnessHonest", "Consumed"]
    cfg = "SPECIFICATION TraceSpec\nCONSTANTS\n  Laws = {%s}\n  OnlyF = \"%s\"\nINVARIANTS\n%s\nCHECK_DEADLOCK TRUE\n" % (
        ",".join('"%s"' % l for l in sorted(laws)), onlyf, "\n".join("  " + i for i in invs))
    out, dt = run_tlc_trace("TraceOps.tla", cfg, workdir, tracefile, timeout=timeout)
    res = parse_tlc(out, set(ALL_INV.values()))
    fails = set()
    for m in re.finditer(r'<<"LAWFAIL", "(\w+)", (\d+), (\d+)>>', out):
        fails.add((m.group(1), int(m.group(2)), int(m.group(3))))
    if any(f[0] == "HARNESS" for f in fails) or "HarnessHonest" in res["violated"] or "Consumed" in res["violated"]:
        res["tool_errors"].append("harness honesty / consumption invariant failed: %s" % sorted(f for f in fails if f[0] == "HARNESS")[:3])
    if res["tool_errors"]:
        raise ToolError("TLC reported tool errors in %s: %s" % (workdir, res["tool_errors"][:3]))
    res["undecided"] = {f for f in fails if f[0] == "UNDECIDED"} | {("UNDECIDED", 0, k) for k in range(len(re.findall(r'<<"UNDECIDED-REGIONEQ">>', out)))}
    fails = {f for f in fails if f[0] != "UNDECIDED"}
    if bool(fails) != bool(res["violated"]):
        raise ToolError("inconsistent TLC output (LAWFAIL lines vs invariant errors) in " + workdir)
    res["lawfails"] = fails
    res["seconds"] = dt
    return res


def chunk_file(path, max_bytes=int(os.environ.get("VERIF_CHUNK_BYTES", 12 << 20))):
    """Split an ndjson file at line boundaries into pieces of at most max_bytes (TLC's JSON module
    materialises the whole file as one value per worker; ~12 MB is comfortable). Returns the paths."""
    if os.path.getsize(path) <= max_bytes:
        return [path]
    parts, cur, size = [], None, 0
    with open(path) as f:
        for line in f:
            if cur is None or size + len(line) > max_bytes:
                if cur:
                    cur.close()
                parts.append("%s.part%d" % (path, len(parts)))
                cur = open(parts[-1], "w")
                size = 0
            cur.write(line)
            size += len(line)
    if cur:
        cur.close()
    return parts


def load_sessions(path):
    with open(path) as f:
        return [json.loads(l) for l in f if l.strip()]


def input_hash(sess, upto=None):
    """Canonical hash of what was put INTO the library in a session (defs and the call shapes
    up to event index `upto`, 1-based inclusive), independent of what came out."""
    h = hashlib.sha256()
    for i, e in enumerate(sess["events"], 1):
        if upto is not None and i > upto:
            break
        if e["ev"] == "def":
            if e.get("opaque"):
                h.update(json.dumps(["opaque", e["name"], e.get("digest", "")]).encode())
            h.update(json.dumps(["def", e["name"], e.get("k", 0), [[[q[:2] for q in r] for r in p] for p in e["mp"]]], separators=(",", ":")).encode())
        elif e["ev"] == "filler":
            h.update(json.dumps(["filler", e["n"], e["op"]]).encode())
        else:
            h.update(json.dumps(["call", e["op"], e["x"], e["y"], e["px"], e["py"], e["F"]], separators=(",", ":")).encode())
    return h.hexdigest()[:16]


def n_edges_mp(mp):
    n = 0
    for p in mp:
        for r in p:
            n += sum(1 for a, b in zip(r, r[1:]) if a[:2] != b[:2])
    return n


def session_stats(sessions):
    """evaluations (calls), distinct inputs, distinct non-trivial inputs (the sweep ran and at
    least one edge was split or the operands' boxes overlapped with shared geometry)."""
    calls = 0
    distinct = set()
    nontrivial = set()
    for s in sessions:
        edges = {}
        defs = {}
        for e in s["events"]:
            if e["ev"] == "def":
                edges[e["name"]] = n_edges_mp(e["mp"])
                defs[e["name"]] = json.dumps([[[q[:2] for q in r] for r in p] for p in e["mp"]], separators=(",", ":"))
            elif e["ev"] == "filler":
                calls += e["n"]
            else:
                calls += 1
                key = hashlib.sha256(json.dumps([defs.get(e["x"], e["x"]), defs.get(e["y"], e["y"]), e["op"], e["px"], e["py"], e["F"], s["sid"] if e["x"] not in defs or e["y"] not in defs else 0]).encode()).hexdigest()[:16]
                distinct.add(key)
                n = edges.get(e["x"], 0) + edges.get(e["y"], 0)
                if e["outcome"] == "ok":
                    edges[e["res"]] = n_edges_mp(e["mp"])
                if e["popped"] > 2 * n and n > 0:
                    nontrivial.add(key)
    return calls, len(distinct), len(nontrivial)


def load_known():
    if not os.path.exists(KNOWN):
        return []
    with open(KNOWN) as f:
        return json.load(f).get("findings", [])


def write_replay(prop, sess, upto, law):
    d = os.path.join(OUT, "replays")
    os.makedirs(d, exist_ok=True)
    h = input_hash(sess, upto)
    path = os.path.join(d, "%s-%s.json" % (prop, h))
    rec = dict(sess)
    rec["events"] = sess["events"][:upto]
    rec["violated_law"] = law
    rec["input_hash"] = h
    with open(path, "w") as f:
        f.write(json.dumps(rec, separators=(",", ":")) + "\n")
    return path, h


def write_evidence(prop, tier, seed, level, coverage, wall, violations, assumptions):
    os.makedirs(EVID, exist_ok=True)
    ev = {"property_id": prop, "tier": tier, "seed": seed, "level": level, "coverage": coverage,
          "assumptions": assumptions, "wall_s": round(wall, 1), "violations": violations}
    with open(os.path.join(EVID, prop + ".json"), "w") as f:
        json.dump(ev, f, indent=1)
        f.write("\n")


def compact_sample(sess, max_calls=2):
    out = {"sid": sess["sid"], "kind": sess["kind"], "family": sess["family"], "seed": sess["seed"], "events": []}
    nc = 0
    for e in sess["events"]:
        if e["ev"] == "def":
            out["events"].append({"def": e["name"], "rel": e.get("rel"), "mp": [[[q[:2] for q in r] for r in p] for p in e["mp"]]})
        elif e["ev"] == "filler":
            continue
        elif nc < max_calls:
            nc += 1
            out["events"].append({"call": e["res"], "op": e["op"], "x": e["x"], "y": e["y"], "pairing": e["px"] + e["py"], "F": e["F"],
                                  "outcome": e["outcome"], "popped": e["popped"], "mp": [[[q[:2] for q in r] for r in p] for p in e["mp"]]})
    return out


def abstract_laws(workdir, buggy=False, maxcalls=2):
    """MC of the abstract call-history machine (BoolOpsAbs.tla): the relational laws are consequences
    of the contract C01 in every history of bounded length. Returns (parsed result, seconds)."""
    cfg = ("SPECIFICATION Spec\nCONSTANTS\n  Cells = {1, 2}\n  Far = 9\n  MaxCalls = %d\n  Buggy = %s\nINVARIANTS\n  C05_Partition\n  C06_Commutes\n  C06_Self\n  C06_Empty\n"
           "  C07_RepresentationInvariant\n  C09_FarPartLocal\n  C11_ChainedAlgebra\n  C11_Examples\n  C12_Deterministic\nCHECK_DEADLOCK FALSE\n") % (maxcalls, "TRUE" if buggy else "FALSE")
    out, dt = run_tlc("BoolOpsAbs.tla", cfg, workdir, timeout=3000)
    return parse_tlc(out, set()), dt


def prove_laws(workdir, timeout=900):
    """TLAPS: the relational laws are consequences of the contract for ARBITRARY regions
    (spec/BoolOpsLaws.tla). Returns (obligations proved, seconds); anything unproved is a tool error."""
    import shutil
    os.makedirs(workdir, exist_ok=True)
    shutil.copy(os.path.join(SPEC, "BoolOpsLaws.tla"), os.path.join(workdir, "BoolOpsLaws.tla"))
    t0 = time.time()
    r = sh("timeout %d tlapm --threads 8 --cleanfp BoolOpsLaws.tla 2>&1" % timeout, cwd=workdir)
    dt = time.time() - t0
    m = re.search(r"All (\d+) obligations? proved", r.stdout or "")
    if not m:
        raise ToolError("tlapm did not prove BoolOpsLaws.tla: %s" % (r.stdout or "")[-800:])
    return int(m.group(1)), dt


def fixtures_file(path):
    """The repository's own test inputs (tests/fixtures/**/*.geojson: first two features), as one
    json line each, for `vh rec-fixtures`. Read from /repo's working tree at check time."""
    import glob
    n = 0
    with open(path, "w") as out:
        for f in sorted(glob.glob(REPO + "/tests/fixtures/**/*.geojson", recursive=True)):
            if "/benchmarks/" in f:
                continue
            try:
                d = json.load(open(f))
                feats = d["features"][:2]
                if len(feats) < 2:
                    continue
                mps = []
                for ft in feats:
                    g = ft["geometry"]
                    polys = [g["coordinates"]] if g["type"] == "Polygon" else g["coordinates"]
                    mps.append([[[[float(q[0]), float(q[1])] for q in ring] for ring in poly] for poly in polys])
                out.write(json.dumps({"name": os.path.relpath(f, REPO + "/tests/fixtures"), "A": mps[0], "B": mps[1]}) + "\n")
                n += 1
            except Exception:
                continue
    return n
