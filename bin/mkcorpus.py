#!/usr/bin/env python3
"""Author corpus sessions (inputs only) from literal polygons; `vh rerun` re-executes them.
usage: edit CASES below / import add(); writes corpus/hand.ndjson"""
import json, os
CASES = []
def ring(pts):
    r = [[x, y, 0] for (x, y) in pts]
    if r and r[0] != r[-1]:
        r.append(list(r[0]))
    return r
def mp(polys):
    return [[ring(r) for r in p] for p in polys]
def add(tag, A, B, ops=("int", "union", "diff", "xor"), swap=True, scale=1):
    A = [[[(x * scale, y * scale) for (x, y) in r] for r in p] for p in A]
    B = [[[(x * scale, y * scale) for (x, y) in r] for r in p] for p in B]
    ev = [{"ev": "def", "name": "A", "k": 0, "mp": mp(A), "rel": "base"},
          {"ev": "def", "name": "B", "k": 0, "mp": mp(B), "rel": "base"}]
    n = 0
    def call(op, x, y):
        nonlocal n
        n += 1
        ev.append({"ev": "call", "res": "R%d" % n, "op": op, "x": x, "y": y, "px": "m", "py": "m", "F": "f64", "thr": 0,
                   "outcome": "ok", "msg": "", "popped": 0, "mp": [], "bits": "", "xd": ["", ""], "yd": ["", ""]})
    for op in ops:
        call(op, "A", "B")
    if swap:
        for op in ops:
            call(op, "B", "A")
    CASES.append({"sid": len(CASES) + 1, "kind": "corpus", "family": "hand/" + tag, "seed": 0, "events": ev})

sq = lambda x0, y0, x1, y1: [(x0, y0), (x1, y0), (x1, y1), (x0, y1)]
# F1 (DESIGN 7): shared top edge under union -> upper piece attached as a hole
add("F1-shared-top-edge", [[sq(0, 0, 1, 1)], [sq(1, 1, 2, 2)]], [[sq(0, 2, 3, 3)], [sq(0, 0, 1, 1)], [sq(2, 0, 3, 1)]])
add("F1-two-triangles", [[[(0, 0), (1, 1), (0, 1)]]], [[[(0, 0), (2, 0), (1, 1)]]])
# F2 (DESIGN 7): vertex of another part of the same operand on a vertical edge
add("F2-vertex-on-vertical", [[[(2, 0), (4, 0), (4, 2)]], [[(2, 2), (4, 4), (2, 4)]]],
    [[sq(0, 0, 2, 4)], [[(2, 0), (4, 2), (4, 0)]], [[(2, 2), (4, 2), (4, 4)]]])
# classic configurations
add("cross", [[sq(0, 2, 6, 4)]], [[sq(2, 0, 4, 6)]])
add("hole-in-hole", [[sq(0, 0, 10, 10), list(reversed(sq(2, 2, 8, 8)))], [sq(4, 4, 6, 6)]], [[sq(1, 1, 9, 9), list(reversed(sq(3, 3, 7, 7)))]])
add("touching-corners", [[sq(0, 0, 2, 2)], [sq(2, 2, 4, 4)]], [[sq(2, 0, 4, 2)], [sq(0, 2, 2, 4)]])
add("identical", [[sq(0, 0, 4, 4)]], [[sq(0, 0, 4, 4)]])
add("shared-edge-side-by-side", [[sq(0, 0, 2, 2)]], [[sq(2, 0, 4, 2)]])
add("diamond-in-square", [[sq(0, 0, 8, 8)]], [[[(4, 0), (8, 4), (4, 8), (0, 4)]]])
add("bowtie-touch", [[[(0, 0), (4, 0), (2, 2)]], [[(2, 2), (4, 4), (0, 4)]]], [[[(0, 0), (2, 2), (0, 4)]], [[(4, 0), (4, 4), (2, 2)]]])
add("comb", [[[(0, 0), (12, 0), (12, 2), (10, 2), (10, 6), (8, 6), (8, 2), (6, 2), (6, 6), (4, 6), (4, 2), (2, 2), (2, 6), (0, 6)]]], [[sq(1, 4, 11, 5)]])

# hole of the subject directly above a boundary segment shared with an abutting clipping block
frame = [sq(1, 4, 9, 9), list(reversed(sq(3, 6, 7, 8)))]
add("frame-block-below-window", [frame], [[sq(2, 2, 8, 4)]])
add("frame-block-below-beside", [frame], [[sq(1, 2, 3, 4)]])
add("frame-block-on-top", [frame], [[sq(2, 9, 8, 10)]])
add("frame-block-left", [frame], [[sq(-1, 5, 1, 8)]])
add("frame-block-in-window", [frame], [[sq(3, 6, 5, 8)]])
add("slab-box-island", [[sq(0, 0, 4, 2)], [sq(1, 5, 3, 6)]], [[sq(1, 2, 3, 4)]])
add("T-touch-vertical-right", [[sq(0, 0, 10, 10)]], [[[(10, 5), (15, 3), (15, 8)]]])
add("T-touch-vertical-left-tip", [[[(0, 0), (4, 3), (0, 4)]]], [[[(0, 2), (4, 0), (4, 1)]]], scale=10)
add("notch-aligned-vertex", [[[(0, 0), (6, 0), (6, 6), (0, 6), (2, 3)]]], [[[(2, 1), (5, 1), (5, 7)]]], scale=2)
add("vertex-on-edge-from-below", [[[(0, 0), (2, 1), (0, 2)]]], [[[(1, 2), (3, 0), (3, 3)]]])
add("tall-low-parts", [[sq(0, 0, 4, 10)], [sq(6, 0, 8, 2)]], [[sq(2, 5, 6, 8)]])
add("tip-in-strip", [[[(0, 4), (4, 0), (8, 10)]]], [[sq(2, 1, 6, 3)]], scale=10)

if __name__ == "__main__":
    out = os.path.join(os.path.dirname(os.path.dirname(os.path.abspath(__file__))), "corpus", "hand.ndjson")
    with open(out, "w") as f:
        for c in CASES:
            f.write(json.dumps(c, separators=(",", ":")) + "\n")
    print(len(CASES), "sessions ->", out)
