import sys,re,collections,json
sys.path.insert(0,'/verif/bin')
import vlib
cfg="SPECIFICATION Spec\nINVARIANTS\n C16_ExactOnFloats\n HarnessHonest\nCHECK_DEADLOCK TRUE\n"
out,dt=vlib.run_tlc_trace("TracePIExact.tla",cfg,"/verif/out/piexact/tlc",sys.argv[1],timeout=600)
res=vlib.parse_tlc(out,{"C16_ExactOnFloats","HarnessHonest"})
print(res["tool_errors"][:3], res["violated"], dt)
v=re.findall(r'<<"PIEXACT", "(\w+)", (\d+)>>',out)
recs={r["id"]:r for r in vlib.load_sessions(sys.argv[1])}
bym=collections.Counter((k,recs[int(i)]["mode"]) for k,i in v); print(sorted(bym.items()))
n=0
for k,i in v:
    if k=="fail" and n<4: print(json.dumps(recs[int(i)])[:600]); n+=1
