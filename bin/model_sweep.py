"""Layer M runs: MC_Sweep (exhaustive M |= P on an enumerated family) and the replay of every
TLC behaviour through the real code (code == M on the family; a difference is SPEC-DRIFT)."""
import json
import os
import re

import vlib
from vlib import ToolError, log

M_INVS = ["M_ResultRegion", "M_Nesting", "M_Provenance", "M_EventBound", "M_NoPanic", "M_Subdivision", "M_Classification", "M_StatusLineSorted"]


def run_model(wd, family="tri", n=2, l=840, stride=1, offset=0, use_shortcuts=True, invs=None, replay=True, timeout=7200, inputs_file=None):
    invs = invs or M_INVS
    os.makedirs(wd, exist_ok=True)
    if inputs_file is None:
        # FileInputs is a constant definition: the variable must name a readable file even when unused
        inputs_file = os.path.join(wd, "no-inputs.ndjson")
        open(inputs_file, "w").close()
    else:
        family = "file"
    cfg = ("SPECIFICATION Spec\nCONSTANTS\n  Family = \"%s\"\n  N = %d\n  L = %d\n  Stride = %d\n  Offset = %d\n  REPLAY = %s\n  UseShortcuts = %s\nINVARIANTS\n%s\n  ReplayLine\nCHECK_DEADLOCK FALSE\n" % (
        family, n, l, stride, offset, "TRUE" if replay else "FALSE", "TRUE" if use_shortcuts else "FALSE", "\n".join("  " + i for i in invs)))
    out, dt = vlib.run_tlc("MC_Sweep.tla", cfg, wd, timeout=timeout, workers=14, env={"MCINPUTS": inputs_file})
    res = vlib.parse_tlc(out, set())
    if res["tool_errors"] or res["violated"]:
        raise ToolError("MC_Sweep(%s, stride %d): the transcription violates a Layer P contract inside TLC or TLC failed: %s (see %s/tlc.log; confirm against the real code before calling it a finding)" % (
            family, stride, (res["tool_errors"] + res["violated"])[:3], wd))
    behaviours = []
    if replay:
        seen = set()
        for line in out.splitlines():
            if line.startswith('<<"REPLAY", "'):
                s = line[len('<<"REPLAY", "'):-3].encode().decode("unicode_escape")
                if s in seen:
                    continue
                seen.add(s)
                behaviours.append(json.loads(s))
    return res, behaviours, dt


def geo_sorted(b):
    ev = b["ev"]
    out = []
    for t in b["sorted"]:
        o = ev[t[5] - 1]
        if t[13]:
            p = ev[t[13] - 1]
            po = ev[p[5] - 1]
            pir = [1, p[1], p[2], po[1], po[2]]
        else:
            pir = [0, 0, 0, 0, 0]
        out.append([t[1], t[2], t[4], t[6], o[1], o[2], t[9], t[10], t[11], t[12]] + pir)
    return out


def replay_behaviours(behaviours, wd):
    """Step the model's behaviours through the real code; returns (n, drift list, label histogram)."""
    os.makedirs(wd, exist_ok=True)
    inp = os.path.join(wd, "inputs.ndjson")
    with open(inp, "w") as f:
        for b in behaviours:
            f.write(json.dumps({"A": b["A"], "B": b["B"], "op": b["op"]}, separators=(",", ":")) + "\n")
    outp = os.path.join(wd, "real.ndjson")
    vlib.vh(["replay-sweep", "--file", inp], outp, timeout=3000)
    real = vlib.load_sessions(outp)
    if len(real) != len(behaviours):
        raise ToolError("replay-sweep returned %d records for %d behaviours" % (len(real), len(behaviours)))
    drift = []
    labels = {}
    for b, r in zip(behaviours, real):
        for lb in b["labs"]:
            key = "/".join(str(x) for x in lb)
            labels[key] = labels.get(key, 0) + 1
        m_trivial = b["labs"] and b["labs"][-1] == ["trivial"]
        m_sorted = [] if m_trivial else geo_sorted(b)
        m_out = [[[q[:2] for q in rg] for rg in pl] for pl in b["out"]]
        r_out = [[[q[:2] for q in rg] for rg in pl] for pl in r["out"]]
        why = None
        if r["outcome"] != "ok":
            why = "real outcome %s" % r["outcome"]
        elif bool(m_trivial) != bool(r["trivial"]):
            why = "shortcut taken differs"
        elif m_sorted != r["sorted"]:
            k = next((i for i, (x, y) in enumerate(zip(m_sorted, r["sorted"])) if x != y), min(len(m_sorted), len(r["sorted"])))
            why = "sorted events differ at position %d: model %s real %s" % (k, m_sorted[k] if k < len(m_sorted) else None, r["sorted"][k] if k < len(r["sorted"]) else None)
        elif m_out != r_out:
            why = "result rings differ: model %s real %s" % (json.dumps(m_out)[:200], json.dumps(r_out)[:200])
        if why:
            drift.append({"A": b["A"], "B": b["B"], "op": b["op"], "why": why})
    os.remove(inp)
    os.remove(outp)
    return len(real), drift, labels


def generator_inputs(wd, fam, stride, seed, kind="single", count=None, kmax=3, max_edges=60):
    """Inputs of a generator family of the harness for Layer M (Family "file"): the operand pairs are taken
    from recorded sessions (def events, integer frame only), one input per operation."""
    os.makedirs(wd, exist_ok=True)
    tmp = os.path.join(wd, "gen-sessions.ndjson")
    if "en:" in fam:
        total = int(vlib.vh_out(["enum-total", "--family", fam]))
        start = seed % stride
        args = ["rec-ops", "--kind", kind, "--family", fam, "--count", (total - start + stride - 1) // stride, "--seed", seed, "--kmax", kmax, "--max-edges", 400,
                "--enum-from", start, "--enum-stride", stride]
    else:
        args = ["rec-ops", "--kind", kind, "--family", fam, "--count", count, "--seed", seed, "--kmax", kmax, "--max-edges", max_edges]
    vlib.vh(args, tmp)
    path = os.path.join(wd, "mc-inputs.ndjson")
    n = 0
    seen = set()
    with open(tmp) as f, open(path, "w") as g:
        for line in f:
            d = json.loads(line)
            defs = {e["name"]: e for e in d["events"] if e["ev"] == "def"}
            if set(defs) != {"A", "B"} or any(e["k"] != 0 or e.get("opaque") for e in defs.values()):
                continue
            a, b = ([[[q[:2] for q in rg] for rg in pl] for pl in defs[x]["mp"]] for x in ("A", "B"))
            if any(q[2] != 0 for x in ("A", "B") for pl in defs[x]["mp"] for rg in pl for q in rg):
                continue
            if not a or not b:
                continue        # an empty operand never reaches the sweep (covered by the degenerate sessions)
            key = json.dumps([a, b])
            if key in seen:
                continue
            seen.add(key)
            for op in ("int", "union", "diff", "xor"):
                g.write(json.dumps({"A": a, "B": b, "op": op}, separators=(",", ":")) + "\n")
                n += 1
    os.remove(tmp)
    return path, n


def model_and_replay(prop, wd, **kw):
    gen = kw.pop("generator", None)
    if gen:
        # (family, stride-or-count, seed): Layer M on the inputs of a generator family of the harness
        path, n_in = generator_inputs(wd, gen[0], gen[1], gen[2], count=gen[1])
        kw["inputs_file"] = path
        kw["family"] = "file:" + gen[0]
    fam_label = kw.get("family", "tri")
    if kw.get("inputs_file"):
        kw["family"] = "file"
    res, behaviours, dt = run_model(wd, **kw)
    kw["family"] = fam_label
    n, drift, labels = replay_behaviours(behaviours, os.path.join(wd, "replay")) if behaviours else (0, [], {})
    log("[%s] Layer M: MC_Sweep family=%s stride=%s shortcuts=%s: %d behaviours, %d distinct states, all Layer P contracts hold in the model (%.0fs); replayed through the real code: %d, drift %d" % (
        prop, kw.get("family", "tri"), kw.get("stride", 1), kw.get("use_shortcuts", True), len(behaviours), res["distinct"], dt, n, len(drift)))
    for d in drift[:3]:
        log("SPEC-DRIFT action=sweep-replay op=%s A=%s B=%s: %s" % (d["op"], json.dumps(d["A"])[:120], json.dumps(d["B"])[:120], d["why"][:300]))
    if len(drift) > 3:
        log("SPEC-DRIFT ... %d more behaviours differ" % (len(drift) - 3))
    return {"states": res["distinct"], "transitions": res["generated"], "behaviours": len(behaviours), "replayed": n, "drift": len(drift), "labels": labels, "tlc_seconds": round(dt, 1),
            "inputs": [(b["A"], b["B"], b["op"]) for b in behaviours],
            # per input: does the TRANSCRIPTION of the pinned algorithm satisfy the strict reading of C14's last clause (no stale prev_in_result)?
            "strict": [bool(b.get("strictcls", True)) for b in behaviours]}


def inputs_as_sessions(inputs, path, tag):
    """The model's own inputs (one TLC behaviour each) as corpus sessions for `vh rerun`: the real
    code's answers to exactly these inputs are then judged by the Layer P contract (TraceOps), so a
    difference between model and code is a VIOLATION when - and only when - the contract says so."""
    groups = {}
    for (a, b, op) in inputs:
        groups.setdefault(json.dumps([a, b]), (a, b, []))[2].append(op)
    with open(path, "w") as f:
        for i, (a, b, ops) in enumerate(groups.values()):
            mp3 = lambda mp: [[[[q[0], q[1], 0] for q in rg] for rg in pl] for pl in mp]
            ev = [{"ev": "def", "name": "A", "k": 0, "mp": mp3(a), "rel": "base"}, {"ev": "def", "name": "B", "k": 0, "mp": mp3(b), "rel": "base"}]
            for n, op in enumerate(sorted(set(ops))):
                ev.append({"ev": "call", "res": "R%d" % (n + 1), "op": op, "x": "A", "y": "B", "px": "m", "py": "m", "F": "f64", "thr": 0,
                           "outcome": "ok", "msg": "", "popped": 0, "mp": [], "bits": "", "xd": ["", ""], "yd": ["", ""]})
            f.write(json.dumps({"sid": i + 1, "kind": "model", "family": "layerM/" + tag, "seed": 0, "events": ev}, separators=(",", ":")) + "\n")
    return len(groups)
