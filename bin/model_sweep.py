"""Layer M runs: MC_Sweep (exhaustive M |= P on an enumerated family) and the replay of every
TLC behaviour through the real code (code == M on the family; a difference is SPEC-DRIFT)."""
import json
import os
import re

import vlib
from vlib import ToolError, log

M_INVS = ["M_ResultRegion", "M_Nesting", "M_Provenance", "M_EventBound", "M_NoPanic", "M_Subdivision", "M_Classification", "M_StatusLineSorted"]


def run_model(wd, family="tri", n=2, l=840, stride=1, offset=0, use_shortcuts=True, invs=None, replay=True, timeout=7200):
    invs = invs or M_INVS
    cfg = ("SPECIFICATION Spec\nCONSTANTS\n  Family = \"%s\"\n  N = %d\n  L = %d\n  Stride = %d\n  Offset = %d\n  REPLAY = %s\n  UseShortcuts = %s\nINVARIANTS\n%s\n  ReplayLine\nCHECK_DEADLOCK FALSE\n" % (
        family, n, l, stride, offset, "TRUE" if replay else "FALSE", "TRUE" if use_shortcuts else "FALSE", "\n".join("  " + i for i in invs)))
    out, dt = vlib.run_tlc("MC_Sweep.tla", cfg, wd, timeout=timeout, workers=14)
    res = vlib.parse_tlc(out, set())
    if res["tool_errors"] or res["violated"]:
        raise ToolError("MC_Sweep(%s, stride %d): the transcription violates a Layer P contract inside TLC or TLC failed: %s (see %s/tlc.log; confirm against the real code before calling it a finding)" % (
            family, stride, (res["tool_errors"] + res["violated"])[:3], wd))
    behaviours = []
    if replay:
        seen = set()
        for line in out.splitlines():
            if line.startswith('<<"REPLAY", "'):
                s = line[len('<<"REPLAY", "'):-3].encode().decode("unicode_escape")
                if s in seen:
                    continue
                seen.add(s)
                behaviours.append(json.loads(s))
    return res, behaviours, dt


def geo_sorted(b):
    ev = b["ev"]
    out = []
    for t in b["sorted"]:
        o = ev[t[5] - 1]
        if t[13]:
            p = ev[t[13] - 1]
            po = ev[p[5] - 1]
            pir = [1, p[1], p[2], po[1], po[2]]
        else:
            pir = [0, 0, 0, 0, 0]
        out.append([t[1], t[2], t[4], t[6], o[1], o[2], t[9], t[10], t[11], t[12]] + pir)
    return out


def replay_behaviours(behaviours, wd):
    """Step the model's behaviours through the real code; returns (n, drift list, label histogram)."""
    os.makedirs(wd, exist_ok=True)
    inp = os.path.join(wd, "inputs.ndjson")
    with open(inp, "w") as f:
        for b in behaviours:
            f.write(json.dumps({"A": b["A"], "B": b["B"], "op": b["op"]}, separators=(",", ":")) + "\n")
    outp = os.path.join(wd, "real.ndjson")
    vlib.vh(["replay-sweep", "--file", inp], outp, timeout=3000)
    real = vlib.load_sessions(outp)
    if len(real) != len(behaviours):
        raise ToolError("replay-sweep returned %d records for %d behaviours" % (len(real), len(behaviours)))
    drift = []
    labels = {}
    for b, r in zip(behaviours, real):
        for lb in b["labs"]:
            key = "/".join(str(x) for x in lb)
            labels[key] = labels.get(key, 0) + 1
        m_trivial = b["labs"] and b["labs"][-1] == ["trivial"]
        m_sorted = [] if m_trivial else geo_sorted(b)
        m_out = [[[q[:2] for q in rg] for rg in pl] for pl in b["out"]]
        r_out = [[[q[:2] for q in rg] for rg in pl] for pl in r["out"]]
        why = None
        if r["outcome"] != "ok":
            why = "real outcome %s" % r["outcome"]
        elif bool(m_trivial) != bool(r["trivial"]):
            why = "shortcut taken differs"
        elif m_sorted != r["sorted"]:
            k = next((i for i, (x, y) in enumerate(zip(m_sorted, r["sorted"])) if x != y), min(len(m_sorted), len(r["sorted"])))
            why = "sorted events differ at position %d: model %s real %s" % (k, m_sorted[k] if k < len(m_sorted) else None, r["sorted"][k] if k < len(r["sorted"]) else None)
        elif m_out != r_out:
            why = "result rings differ: model %s real %s" % (json.dumps(m_out)[:200], json.dumps(r_out)[:200])
        if why:
            drift.append({"A": b["A"], "B": b["B"], "op": b["op"], "why": why})
    os.remove(inp)
    os.remove(outp)
    return len(real), drift, labels


def model_and_replay(prop, wd, **kw):
    res, behaviours, dt = run_model(wd, **kw)
    n, drift, labels = replay_behaviours(behaviours, os.path.join(wd, "replay")) if behaviours else (0, [], {})
    log("[%s] Layer M: MC_Sweep family=%s stride=%s shortcuts=%s: %d behaviours, %d distinct states, all Layer P contracts hold in the model (%.0fs); replayed through the real code: %d, drift %d" % (
        prop, kw.get("family", "tri"), kw.get("stride", 1), kw.get("use_shortcuts", True), len(behaviours), res["distinct"], dt, n, len(drift)))
    for d in drift[:3]:
        log("SPEC-DRIFT action=sweep-replay op=%s A=%s B=%s: %s" % (d["op"], json.dumps(d["A"])[:120], json.dumps(d["B"])[:120], d["why"][:300]))
    if len(drift) > 3:
        log("SPEC-DRIFT ... %d more behaviours differ" % (len(drift) - 3))
    return {"states": res["distinct"], "transitions": res["generated"], "behaviours": len(behaviours), "replayed": n, "drift": len(drift), "labels": labels, "tlc_seconds": round(dt, 1),
            "inputs": [(b["A"], b["B"], b["op"]) for b in behaviours]}


def inputs_as_sessions(inputs, path, tag):
    """The model's own inputs (one TLC behaviour each) as corpus sessions for `vh rerun`: the real
    code's answers to exactly these inputs are then judged by the Layer P contract (TraceOps), so a
    difference between model and code is a VIOLATION when - and only when - the contract says so."""
    groups = {}
    for (a, b, op) in inputs:
        groups.setdefault(json.dumps([a, b]), (a, b, []))[2].append(op)
    with open(path, "w") as f:
        for i, (a, b, ops) in enumerate(groups.values()):
            mp3 = lambda mp: [[[[q[0], q[1], 0] for q in rg] for rg in pl] for pl in mp]
            ev = [{"ev": "def", "name": "A", "k": 0, "mp": mp3(a), "rel": "base"}, {"ev": "def", "name": "B", "k": 0, "mp": mp3(b), "rel": "base"}]
            for n, op in enumerate(sorted(set(ops))):
                ev.append({"ev": "call", "res": "R%d" % (n + 1), "op": op, "x": "A", "y": "B", "px": "m", "py": "m", "F": "f64", "thr": 0,
                           "outcome": "ok", "msg": "", "popped": 0, "mp": [], "bits": "", "xd": ["", ""], "yd": ["", ""]})
            f.write(json.dumps({"sid": i + 1, "kind": "model", "family": "layerM/" + tag, "seed": 0, "events": ev}, separators=(",", ":")) + "\n")
    return len(groups)
