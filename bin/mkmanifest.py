#!/usr/bin/env python3
"""Regenerate MANIFEST.json from the table below (single source of truth for the interface)."""
import json, os
ROOT = os.path.dirname(os.path.dirname(os.path.abspath(__file__)))
OPS_TECH = "TLA+ trace validation: sessions recorded from the real library are replayed through the BoolOps state machine (TraceOps.tla) and judged by TLC with the exact integer region oracle (Oracle.tla)"
OPS_NOTE = ("Assumes: operands are valid by construction (generator trusted for validity); TLC evaluates the Layer P operators correctly; "
            "decided domain = inputs whose exact intersection points are integral with |coordinate| <= 2^12 (lattice families, integer affine images, 840-scaled 3x3 lattice triangles); "
            "beyond the exhaustively enumerated families the input quantifier is seeded exploration judged by the exact oracle.")
C = {
 "C01": ("model_checking", "Every recorded call result is compared, on both sides of every atom of the arrangement of the input edges (= on every face), with the Boolean combination computed by exact parity ray casting in TLA+ integers; exhaustive over all 5 776 ordered pairs of 3x3-lattice triangles x 4 operations (thorough), seeded over triangulated-lattice operands incl. affine images, all 4 trait pairings, f64 and f32.", "6 C01"),
 "C02": ("model_checking", "PolygonSetValid is evaluated by TLC on every recorded result: no atom covered twice, holes inside their exterior and outside sibling holes (every atom of every hole), polygons pairwise interior-disjoint and polygon reading = even-odd reading on both sides of every atom.", "6 C02"),
 "C03": ("model_checking", "Every recorded call (release and debug-assertion builds, f32/f64, degenerate operands, chained operands) must have outcome ok and a quadratically bounded number of popped sweep events (hook H1); panics and budget overruns are outcomes in the trace and violate the invariant C03_EveryCallReturns.", "6 C03"),
 "C04": ("model_checking", "RingsFromInputs is evaluated by TLC: closed rings, >=3 distinct vertices, positive doubled area (CCW), every edge on an input edge, every vertex an arrangement vertex of the inputs with deviation 0 on octilinear integer inputs and <= tolerance otherwise, untouched input vertices bit-identical.", "6 C04"),
 "C05": ("model_checking", "For the five results of one operand pair TLC checks that intersection, A-B, B-A cancel the union's boundary mod 2 on every atom and that the doubled areas add up exactly (hence pairwise interior-disjoint), xor = (A-B)+(B-A), and the three area identities, in exact integers.", "6 C05"),
 "C06": ("model_checking", "Laws evaluated on sessions: swapped operands give equal canonical ring sets (exact families) / equal regions (rounding families); A op A; empty operands (three shapes of emptiness, both sides, all pairings); boxes disjoint => result literally the obvious list.", "6 C06"),
 "C07": ("model_checking", "Re-presented operands (ring start, direction, part order, repeated vertices, unclosed rings) and all four trait pairings must give identical canonical ring sets on exact families and equal regions otherwise; the spec first checks that the generator's re-presentation is honest.", "6 C07"),
 "C08": ("model_checking", "Scaling by 2^k (|k| <= 200): unscaled result and raw-bit digest must be identical; integer translation: identically translated rings on exact families; the 7 non-trivial lattice symmetries: transformed region equal (mod-2 atoms).", "6 C08"),
 "C09": ("model_checking", "Far parts added to either operand on each of the 4 sides, base pairs with overlapping, touching and disjoint boxes (shortcut and early break taken in one call and not in the other): region changes exactly by the part's own contribution.", "6 C09"),
 "C10": ("model_checking", "Every unary law (C01-C06) is evaluated on f32 calls, and on exact families the f32 result must equal the f64 result coordinate for coordinate.", "6 C10"),
 "C11": ("model_checking", "Chained calls (results passed on exactly as returned, either side, third operand independent or re-used, depth 2 and 3): the final region must equal the Boolean expression over the base operands on every atom; every intermediate value must be a valid polygon set and every call must return.", "6 C11"),
 "C12": ("model_checking", "Operand bit digests before/after every call must agree; repeated calls (after unrelated calls, from 8 concurrent threads) must return identical values and identical raw bits. Histories are validated by TLC; the schedule quantifier is sampled (the specification has no shared state to enumerate schedules over).", "6 C12"),
}
def main():
    checks = []
    for pid, (lvl, text, ref) in sorted(C.items()):
        checks.append({
            "property_id": pid,
            "quick_cmd": "bin/check %s quick" % pid,
            "thorough_cmd": "bin/check %s thorough" % pid,
            "evidence_file": "evidence/%s.json" % pid,
            "replay_cmd_template": "bin/check %s --replay {path}" % pid,
            "engine": "tlc-trace-validation",
            "level_claimed": {"category": lvl, "text": text, "design_ref": "DESIGN.md section " + ref},
            "level_note": OPS_NOTE,
            "technique": OPS_TECH,
        })
    claimed = {c["property_id"] for c in checks}
    allp = [json.loads(l)["id"] for l in open(os.path.join(ROOT, "properties.jsonl"))]
    na = [{"property_id": p, "reason": "check under construction in this round (specification and harness not yet wired); see DESIGN.md section 6"} for p in allp if p not in claimed]
    m = {
        "version": 1,
        "setup_cmd": "bin/setup",
        "hooks": {
            "guard": "geo_booleanop_verif",
            "enable": "RUSTFLAGS --cfg geo_booleanop_verif (set in harness/.cargo/config.toml; the harness has a path dependency on /repo/lib, so every check rebuilds from /repo's working tree)",
            "baseline_off_cmd": "cd /repo && cargo test --workspace --no-fail-fast --offline",
            "source_commits": ["de4a490"],
            "add_only": True,
        },
        "engines": [
            {"name": "tlc-trace-validation", "path": "spec/TraceOps.tla", "serves_properties": sorted(C.keys()),
             "kind_free_text": "TLC 1.8.0 validating ndjson traces of the real library (harness/) against the Layer P specification (spec/Geometry.tla, Oracle.tla, BoolOps.tla)"},
        ],
        "checks": checks,
        "not_applicable": na,
        "notes": "All judgement is made by TLC on TLA+ specifications; the Rust harness only generates valid inputs, calls the library and records. Exit 2 = tool error.",
    }
    with open(os.path.join(ROOT, "MANIFEST.json"), "w") as f:
        json.dump(m, f, indent=1)
        f.write("\n")
if __name__ == "__main__":
    main()
