#!/usr/bin/env python3
"""Regenerate MANIFEST.json from the table below (single source of truth for the interface)."""
import json, os
ROOT = os.path.dirname(os.path.dirname(os.path.abspath(__file__)))
OPS_TECH = "TLA+ trace validation: sessions recorded from the real library are replayed through the BoolOps state machine (TraceOps.tla) and judged by TLC with the exact integer region oracle (Oracle.tla)"
OPS_NOTE = ("Assumes: operands are valid by construction (generator trusted for validity); TLC evaluates the Layer P operators correctly; "
            "decided domain = inputs whose exact intersection points are integral with |coordinate| <= 2^12 (lattice families, integer affine images, 840-scaled 3x3 lattice triangles); "
            "beyond the exhaustively enumerated families (3x3-lattice triangle pairs; every pair of subsets of small triangulated lattices, gen.rs en:...) the input quantifier is seeded exploration judged by the exact oracle. "
            "Float operands without an integer image (irrational affine images of lattice operands, f64 and f32) are judged at generator-chosen witness points by exact integer arithmetic on the bit patterns "
            "(FloatGeometry.tla; its six primitives are evaluated by a BigInteger module override, FloatGeometry.java, everything above them by TLC): trusted there are the override and the claim that a witness at least 2^-24 (f64) / 2^-14 (f32) of the coordinate magnitude away from every input edge line is 'not within rounding distance'.")
C = {
 "C01": ("model_checking", "Every recorded call result is compared, on both sides of every atom of the arrangement of the input edges (= on every face), with the Boolean combination computed by exact parity ray casting in TLA+ integers; exhaustive over all 5 776 ordered pairs of 3x3-lattice triangles x 4 operations (thorough), seeded over triangulated-lattice operands incl. affine images, all 4 trait pairings, f64 and f32.", "6 C01"),
 "C02": ("model_checking", "PolygonSetValid is evaluated by TLC on every recorded result: no atom covered twice, holes inside their exterior and outside sibling holes (every atom of every hole), polygons pairwise interior-disjoint and polygon reading = even-odd reading on both sides of every atom.", "6 C02"),
 "C03": ("model_checking", "Every recorded call (release and debug-assertion builds, f32/f64, degenerate operands, chained operands) must have outcome ok and a quadratically bounded number of popped sweep events (hook H1); panics and budget overruns are outcomes in the trace and violate the invariant C03_EveryCallReturns.", "6 C03"),
 "C04": ("model_checking", "RingsFromInputs is evaluated by TLC: closed rings, >=3 distinct vertices, positive doubled area (CCW), every edge on an input edge, every vertex an arrangement vertex of the inputs with deviation 0 on octilinear integer inputs and <= tolerance otherwise, untouched input vertices bit-identical.", "6 C04"),
 "C05": ("model_checking", "For the five results of one operand pair TLC checks that intersection, A-B, B-A cancel the union's boundary mod 2 on every atom and that the doubled areas add up exactly (hence pairwise interior-disjoint), xor = (A-B)+(B-A), and the three area identities, in exact integers.", "6 C05"),
 "C06": ("model_checking", "Laws evaluated on sessions: swapped operands give equal canonical ring sets (exact families) / equal regions (rounding families); A op A; empty operands (three shapes of emptiness, both sides, all pairings); boxes disjoint => result literally the obvious list.", "6 C06"),
 "C07": ("model_checking", "Re-presented operands (ring start, direction, part order, repeated vertices, unclosed rings) and all four trait pairings must give identical canonical ring sets on exact families and equal regions otherwise; the spec first checks that the generator's re-presentation is honest.", "6 C07"),
 "C08": ("model_checking", "Scaling by 2^k (|k| <= 200): unscaled result and raw-bit digest must be identical; integer translation: identically translated rings on exact families; the 7 non-trivial lattice symmetries: transformed region equal (mod-2 atoms).", "6 C08"),
 "C09": ("model_checking", "Far parts added to either operand on each of the 4 sides, base pairs with overlapping, touching and disjoint boxes (shortcut and early break taken in one call and not in the other): region changes exactly by the part's own contribution.", "6 C09"),
 "C10": ("model_checking", "Every unary law (C01-C06) is evaluated on f32 calls, and on exact families the f32 result must equal the f64 result coordinate for coordinate.", "6 C10"),
 "C11": ("model_checking", "Chained calls (results passed on exactly as returned, either side, third operand independent or re-used, depth 2 and 3): the final region must equal the Boolean expression over the base operands on every atom; every intermediate value must be a valid polygon set and every call must return.", "6 C11"),
 "C12": ("model_checking", "Operand bit digests before/after every call must agree; repeated calls (after unrelated calls, from 8 concurrent threads) must return identical values and identical raw bits. Histories are validated by TLC; the schedule quantifier is sampled (the specification has no shared state to enumerate schedules over).", "6 C12"),
}
STG_TECH = "TLA+ trace validation of the public stages: recorded outputs of fill_queue / subdivide / the two comparators are judged by TLC against the Stages.tla contracts (exact integer geometry + parity oracle)"
STG_NOTE = "Assumes operands valid by construction; robust domain = lattice inputs with integral intersection points (|coordinate| <= 2^12); stages observed through the public API only."
D = {
 "C13": ("model_checking", "FillQueueOK (one linked L/R pair per non-degenerate edge, left first, exact boxes) and SubdivisionOK (mutual links, left first, non-zero length, no crossing/touching except common end points or full coincidence of different operands, every input edge covered exactly by its chain - compared as bags of atoms, computed points exact/within tolerance) evaluated by TLC on recorded stage outputs; union/xor complete, intersection/difference on the processed prefix.", "6 C13", STG_TECH, STG_NOTE),
 "C14": ("model_checking", "ClassificationOK: for every processed sub-segment that is an atom of the input arrangement, in_out / other_in_out / in_result / transition must equal the oracle's membership of its two sides (vertical: below = right side); coincident twins by the pair clause; prev_in_result must be a non-vertical result edge below (stale inherited pointers are the recorded finding N3).", "6 C14", STG_TECH, STG_NOTE),
 "C15": ("model_checking", "EventOrderOK: every recorded comparison (all pairs for small runs, neighbours + sample otherwise, before and after subdivision) is never Equal, antisymmetric, consistent with one linear order (hence transitive) and equal to the order of the statement (x, y, right before left, lower segment first, subject first). SegmentOrderOK: Equal only for the identical segment, antisymmetric, and agreement with exact vertical separation for non-crossing pairs (stacked collinear verticals of different operands: recorded finding N4).", "6 C15", STG_TECH, STG_NOTE),
 "C16": ("model_checking", "TLC enumerates every ordered pair of lattice segments (3x3, 4x4; 5x5 in thorough) with operand/flag combinations, each scaled by its determinant; every tuple is replayed through the real possible_intersection (f64 and f32) and the outcome judged by PossibleIntersectionOK: code, untouched on none/end-point contact, split exactly the segments containing the point in their interior at one bit-identical point that equals the exact intersection and lies in both boxes, overlap cuts and edge types.", "6 C16",
         "TLC-enumerated argument space (MC_PI.tla) replayed through the real function, outcomes judged by TLC (TracePI.tla / Stages.tla)", "Enumerated tuples: coordinates after scaling <= 2^7. The statement's 2^25 range is reached by the exact float pass (integer-valued floats up to 2^30, decided on the bit patterns through the FloatGeometry override), restricted to robust configurations; near-degenerate float pairs are judged only on the float-decidable clauses (TracePIFloat). Events built with the public constructor/setters."),
 "C17": ("model_checking", "TLC explores every tree reachable over keys 1..5 (quick) / 1..6 (thorough), values {1,2}, all operations incl. absent-key lookups and consuming iteration in both directions, checking refinement of SortedMap at every transition; EVERY transition of that state graph is replayed through the real SplayTree and SplaySet (return value, paired value, len, Debug shape); seeded random histories (up to 2000 ops, 20 keys, extend, hold/check of handed-out references, mixed-direction iteration with early drop) are validated by TLC against the contract and shape for shape against the transcription.", "6 C17",
         "exhaustive TLC model (MC_Splay.tla: SplayTree.tla refines SortedMap.tla) + replay of every model transition through the real tree + TLC trace validation of recorded histories (TraceSplay.tla)", "Keys are integers with the natural order; a shape-only difference is reported as SPEC-DRIFT, not as a violation."),
 "C18": ("exploration", "Scenario events (insertion order x action on 2*10^5 / 3*10^6 keys; Boolean operations on combs, grids, staircases up to 10^6 edges; 8 MiB and 2 MiB stacks) are recorded from child processes with a painted stack and judged by TLC (TraceStack.tla): exit ok and high-water mark <= 64 KiB independent of n. The explicit-depth model (MC_Splay: C18_StackBounded) states the design requirement for every reachable tree.", "6 C18",
         "child-process scenarios with painted-stack high-water mark, judged by TLC against TraceStack.tla; explicit stack-depth invariant in MC_Splay.tla", "The large-n quantifier is sampled by structured scenarios; the model's exhaustive exploration stops at 6 keys."),
}
EXTRA = {
 "C01": " Enumerated families: every pair of cell sets of a 3x2 grid, of subsets of 8 triangles (two triangulations), of cell sets against half-cell-shifted triangle sets (exhaustive in thorough, strided in quick). Float operands (random affine images with irrational entries, f64 and f32, incl. every pair of 3x2 cell sets in thorough) are judged at witness points by C01_WitnessF, exactly on the floats. Layer M (Sweep.tla) is also run on the inputs of generator families (MC_Sweep Family file: enumerated cell sets, slivers hanging into the other box) with all M |= P invariants and replayed through the code. Two crossing combs (up to 160 teeth, ~10^5 result polygons in thorough) are judged by a closed-form result contract in TraceStack.tla (polygon count and area as functions of the number of teeth); the model's own inputs (MC_Sweep families) are answered by the real code and judged by the same laws.",
 "C02": " Also on float operands (C02_WitnessF: no witness in two polygons, polygon reading = even-odd reading at every witness, no edge listed twice bitwise), on enumerated 3x3 cell sets (holes, diagonal neighbours) and on bounding boxes that merely touch (family cxsplit); Layer M on generator families pinch / onion / lamina.",
 "C03": " Enumerated and float families run in both build profiles as well; a sample of the large scenarios (one long result contour, stacked result edges, a high-degree vertex, a long sweep line dropped early) also runs in a build WITHOUT optimisation (harness profile unopt = the default cargo build), where recursion that the optimiser turns into a loop keeps its frames.",
 "C04": " On float operands C04_F decides the same clauses exactly on the bit patterns: closed, >= 3 distinct vertices, non-zero area, counter-clockwise when the sweep ran, every edge within 2^-30 (f64) / 2^-16 (f32) of the coordinate magnitude of ONE input edge, every vertex an input vertex bitwise or that close to two input edges on different lines.",
 "C10": " f32 float operands (irrational affine images) are judged by the exact float laws with single-precision tolerances.",
 "C05": " Float operands (irrational affine images): each of the results of one pair must be the named combination at every admissible witness. The laws are proved consequences of the contract for arbitrary regions (TLAPS, BoolOpsLaws.tla) and checked on bounded call histories (BoolOpsAbs.tla).",
 "C06": " Bounding boxes that merely touch (family cxsplit: tips on the interior of a long side, sides shared in part) must give the obvious result as a region read polygon by polygon and as a valid polygon set (C06_TouchingBoxes). The laws are proved consequences of the contract for arbitrary regions (TLAPS, BoolOpsLaws.tla) and checked on bounded call histories (BoolOpsAbs.tla); A op A is called both with two equal objects and with one object passed twice.",
 "C07": " A further batch on multi-part operands with partial collinear overlaps (the result must not depend on the order of the parts).",
 "C08": " Families whose treatment depends on the sweep direction (a vertex of another part on a shared edge, boxes that merely touch, slivers hanging into the other box) are run under every symmetry.",
 "C13": " Enumerated families and the families tshare / hang / cxsplit are stage-recorded too; Layer M runs on generator inputs. Stage runs also in power-of-two frames 2^+-50..80 (f32 2^+-18..30: whole operands below the machine epsilon), read back exactly and judged by the same integer contracts.",
 "C14": " The strict reading of the last clause demands the NEAREST non-vertical result edge below; the recorded finding N3 (stale or no longer nearest inherited prev_in_result) is accepted only where the TRANSCRIPTION of the pinned algorithm (Layer M, strictcls) produces a stale pointer itself: on the inputs of Layer M a stale pointer that the model does not have is a violation.",
 "C15": " Stage runs also in power-of-two frames 2^+-50..80, read back exactly. One stage run in five hands the zeros of an operand over as -0.0 (equal points with different bits). Exact float pass (TraceOrderExact.tla): pairs of FLOAT events at one common point whose edges are nearly, not exactly, collinear (sliver tips; f64 and f32, 8 symmetries, power-of-two frames) - Ord::cmp both ways and compare_segments decided by the exact sign of the orientation determinant on the bit patterns (FloatGeometry).",
 "C09": " Float operands: one session in three carries a far part on A as a base operand of its own, judged at witness points. Family hang (a sliver reaching into, through or under a corner of the other operand's box, its outer edges completely beyond the box) with far parts sized relative to the operands (a far part that moves the box in the other direction too). Crossing-comb scenarios with and without a far part are judged by the closed-form contract of TraceStack.tla; the far-part lemmas are proved in BoolOpsLaws.tla (TLAPS).",
 "C11": " Chained calls on float operands (families whose results contain no computed points) are judged at witness points against the Boolean expression over the base operands. Half of the chain sessions run on operands normalised by the library itself (A u A, B n B), so that fed-back results can coincide ring by ring with operands; the named identities are proved in BoolOpsLaws.tla (TLAPS).",
 "C12": " Between the first and the repeated calls the sessions make calls that PANIC inside the library (the recorded finding N1) and are caught: what an interrupted call leaves behind on its thread must not reach the next call. Equal operands that are not bit-identical (every zero handed over as -0.0) must give equal results (C12_EqualOperands). Pure-f32 / pure-f64 sessions are recorded in two processes (cold, and after a warm-up call of the other type on another thread) and merged, so that equal calls are compared across process histories; equal operands are passed both as two objects and as one aliased object.",
 "C16": " An exact pass on FLOAT pairs (TracePIExact.tla): needles crossing at angles down to 2^-30, integer-valued coordinates up to 2^30 (f32: 2^20) in power-of-two frames, general crossings, exact T-touches, common end points, end points on the other line beyond the segment - classified exactly from the orientation signs of the bit patterns, only robust configurations judged, every clause of the statement demanded. The same tuples are replayed with a queue that already holds an unrelated event of matching identity at an end point of the other segment (what the step adds must not depend on it).",
 "C17": " A difference in the CONTENT of the rendered tree (its key / value pairs in symmetric order) is a contract failure, a difference in arrangement is drift; trace validation continues after a drift, so a rearranging refactoring never switches the contract off. The contract covers get_mut / Index / IndexMut / is_empty / extend and the derived iterator forms nth / nth_back as well.",
 "C18": " A sample of the tree and Boolean scenarios also runs in a build without optimisation (profile unopt) on stacks of at most 1 MiB. Scenarios include the derived iterator forms (nth, skip, step_by, last, fold), min / max on unsplayed chains and a vertex of degree 10^5 (hub).",
}


def main():
    for k, extra in EXTRA.items():
        for T in (C, D):
            if k in T:
                t = list(T[k])
                t[1] = t[1] + extra
                T[k] = tuple(t)
    checks = []
    for pid, (lvl, text, ref, tech, note) in sorted(D.items()):
        checks.append({
            "property_id": pid,
            "quick_cmd": "bin/check %s quick" % pid,
            "thorough_cmd": "bin/check %s thorough" % pid,
            "evidence_file": "evidence/%s.json" % pid,
            "replay_cmd_template": "bin/check %s --replay {path}" % pid,
            "engine": "tlc-trace-validation",
            "level_claimed": {"category": lvl, "text": text, "design_ref": "DESIGN.md section " + ref},
            "level_note": note,
            "technique": tech,
        })
    for pid, (lvl, text, ref) in sorted(C.items()):
        checks.append({
            "property_id": pid,
            "quick_cmd": "bin/check %s quick" % pid,
            "thorough_cmd": "bin/check %s thorough" % pid,
            "evidence_file": "evidence/%s.json" % pid,
            "replay_cmd_template": "bin/check %s --replay {path}" % pid,
            "engine": "tlc-trace-validation",
            "level_claimed": {"category": lvl, "text": text, "design_ref": "DESIGN.md section " + ref},
            "level_note": OPS_NOTE,
            "technique": OPS_TECH,
        })
    checks.sort(key=lambda c: c["property_id"])
    claimed = {c["property_id"] for c in checks}
    allp = [json.loads(l)["id"] for l in open(os.path.join(ROOT, "properties.jsonl"))]
    na = [{"property_id": p, "reason": "check under construction in this round (specification and harness not yet wired); see DESIGN.md section 6"} for p in allp if p not in claimed]
    m = {
        "version": 1,
        "setup_cmd": "bin/setup",
        "hooks": {
            "guard": "geo_booleanop_verif",
            "enable": "RUSTFLAGS --cfg geo_booleanop_verif (set in harness/.cargo/config.toml; the harness has a path dependency on /repo/lib, so every check rebuilds from /repo's working tree)",
            "baseline_off_cmd": "cd /repo && cargo test --workspace --no-fail-fast --offline",
            "source_commits": ["de4a490"],
            "add_only": True,
        },
        "engines": [
            {"name": "tlc-trace-validation", "path": "spec/TraceOps.tla", "serves_properties": sorted(list(C.keys()) + list(D.keys())),
             "kind_free_text": "TLC 1.8.0 validating ndjson traces of the real library (harness/) against the Layer P specification (spec/Geometry.tla, Oracle.tla, BoolOps.tla, Stages.tla, SortedMap.tla) and exhaustive Layer M models (MC_Splay.tla, MC_PI.tla)"},
        ],
        "checks": checks,
        "not_applicable": na,
        "notes": "All judgement is made by TLC on TLA+ specifications; the Rust harness only generates valid inputs, calls the library and records. Exit 2 = tool error.",
    }
    with open(os.path.join(ROOT, "MANIFEST.json"), "w") as f:
        json.dump(m, f, indent=1)
        f.write("\n")
if __name__ == "__main__":
    main()
