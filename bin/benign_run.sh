#!/bin/bash
# usage: benign_run.sh <name> <tier> <PROP>...  -- apply benign/<name>/patch.diff (a behaviour-preserving refactoring) to /repo, run the checks (all must exit 0), undo
name=$1; tier=$2; shift 2
cd /repo && git diff --quiet || { echo "/repo dirty"; exit 2; }
git -C /repo apply /verif/benign/$name/patch.diff || exit 2
for p in "$@"; do
  ( cd /verif && bin/check $p $tier > /verif/out/benign_${name}_$p.log 2>&1; echo "$name $p exit=$? $(grep -c '^VIOLATION' /verif/out/benign_${name}_$p.log) violations; $(grep -E '^(VIOLATION|TOOL-ERROR|SPEC-DRIFT)' /verif/out/benign_${name}_$p.log | head -2 | tr '\n' ' ')" )
done
git -C /repo checkout -- .
( cd /verif && git checkout -- evidence 2>/dev/null )
