"""Checks for the splay tree (C17) and bounded stack (C18)."""
import json
import os
import re
import subprocess
import time

import vlib
from vlib import ToolError, log

PROPS = ["C17", "C18"]

ASSUME17 = [
    "SplayTree.tla is a faithful transcription of lib/src/splay/tree.rs (checked: every transition of its state graph and every recorded history is compared shape for shape with the real tree; a difference is reported as SPEC-DRIFT)",
    "keys are integers with the natural order (a consistent comparator); the SplaySet wrapper is driven in lock-step with the map",
    "TLC explores every tree reachable over the stated key universe; larger universes are covered by seeded random histories only",
]
ASSUME18 = [
    "stack use is measured as the high-water mark of a painted thread stack (8-byte resolution) in a child process; the budget (64 KiB) is independent of n",
    "the explicit-depth model (MC_Splay, C18_StackBounded) states the design requirement; the scenarios bind it to the code",
]


def mc_splay(n, graph, wd, recursive=False, timeout=3000):
    cfg = ("SPECIFICATION Spec\nCONSTANTS\n  N = %d\n  Vals = {1, 2}\n  GRAPH = %s\n  RecursiveTeardown = %s\n"
           "INVARIANTS\n  C17_RefinesSortedMap\n  C17_BST\n  C18_StackBounded\n  GraphLine\nCHECK_DEADLOCK FALSE\n") % (
        n, "TRUE" if graph else "FALSE", "TRUE" if recursive else "FALSE")
    out, dt = vlib.run_tlc("MC_Splay.tla", cfg, wd, timeout=timeout)
    res = vlib.parse_tlc(out, set())
    return out, res, dt


def extract_graph(out, path):
    n = 0
    seen = set()
    with open(path, "w") as f:
        for line in out.splitlines():
            if line.startswith('<<"G", "'):
                s = line[len('<<"G", "'):-3].encode().decode("unicode_escape")
                if s in seen:
                    continue
                seen.add(s)
                f.write(s + "\n")
                n += 1
    return n


def run_c17(tier, seed, t0):
    n = 5 if tier == "quick" else 6
    wd = os.path.join(vlib.OUT, "C17")
    os.makedirs(wd, exist_ok=True)
    nviol = 0
    drift = 0
    # 1. exhaustive model: M |= P, and the state graph
    out, res, dt = mc_splay(n, True, os.path.join(wd, "mc"), timeout=3000)
    if res["tool_errors"] or res["violated"]:
        raise ToolError("MC_Splay: the transcription does not satisfy the contract inside TLC (specification error, not a finding about the code): %s" % (res["tool_errors"] + res["violated"])[:3])
    gpath = os.path.join(wd, "graph.ndjson")
    nlines = extract_graph(out, gpath)
    log("[C17] MC_Splay N=%d: %d distinct states, %d transitions generated, %.1fs; graph of %d (mode,shape) states" % (n, res["distinct"], res["generated"], dt, nlines))
    # 2. replay every transition through the real SplayTree and SplaySet
    rp = os.path.join(wd, "replay.json")
    vlib.vh(["splay-replay", "--graph", gpath], rp, timeout=3000)
    rep = json.loads(open(rp).read())
    os.remove(gpath)
    log("[C17] transition replay: %d states, %d transitions, %d contract mismatches, %d shape mismatches, %d unreached" % (
        rep["states"], rep["transitions"], rep["contract_mismatches"], rep["shape_mismatches"], rep["unreached"]))
    if rep["unreached"]:
        raise ToolError("graph replay could not reach %d states" % rep["unreached"])
    os.makedirs(os.path.join(vlib.OUT, "replays"), exist_ok=True)
    log("[C17] reference stability: %d held-reference checks across lookups from every reachable tree, %d mismatches" % (rep["reference_checks"], rep["reference_mismatches"]))
    if rep["contract_mismatches"] == 0 and rep["reference_mismatches"]:
        p = os.path.join(vlib.OUT, "replays", "C17-reference.json")
        json.dump(rep["examples"], open(p, "w"))
        log("VIOLATION property=C17 replay=%s" % p)
        log("  a reference handed out by a lookup denotes another element after further lookups (%d cases); first: %s" % (rep["reference_mismatches"], json.dumps(rep["examples"][0])[:300]))
        nviol += 1
    if rep["contract_mismatches"]:
        p = os.path.join(vlib.OUT, "replays", "C17-graph-transition.json")
        json.dump(rep["examples"], open(p, "w"))
        log("VIOLATION property=C17 replay=%s" % p)
        log("  %d of %d model transitions: the real tree returned something else than the sorted-map contract; first: %s" % (rep["contract_mismatches"], rep["transitions"], json.dumps(rep["examples"][0])[:400]))
        nviol += 1
    if rep["shape_mismatches"]:
        drift += rep["shape_mismatches"]
        log("SPEC-DRIFT action=splay-graph-replay %d transitions differ in tree shape only (contract holds); exhaustive model results no longer transfer shape for shape" % rep["shape_mismatches"])
    # 3. seeded random histories, validated by TLC against contract and mechanism
    hist = os.path.join(wd, "hist.ndjson")
    runs_a, runs_b = (400, 60) if tier == "quick" else (4000, 600)
    vlib.vh(["splay-hist", "--runs", runs_a, "--len", 80, "--keys", 7, "--seed", seed], hist)
    vlib.vh(["splay-hist", "--runs", runs_b, "--len", 400 if tier == "quick" else 2000, "--keys", 20, "--seed", seed + 1], hist + ".b")
    with open(hist, "a") as f, open(hist + ".b") as g:
        for k, line in enumerate(g):
            d = json.loads(line)
            d["id"] = 100000 + k
            f.write(json.dumps(d, separators=(",", ":")) + "\n")
    os.remove(hist + ".b")
    cfg = "SPECIFICATION Spec\nCONSTANTS RecursiveTeardown = FALSE\nINVARIANTS\n  C17_Contract\n  M_NoDrift\n  C17_StateIsBST\nCHECK_DEADLOCK TRUE\n"
    out2, dt2 = vlib.run_tlc_trace("TraceSplay.tla", cfg, os.path.join(wd, "trace"), hist, timeout=3000)
    res2 = vlib.parse_tlc(out2, {"C17_Contract", "M_NoDrift", "C17_StateIsBST"})
    if res2["tool_errors"]:
        raise ToolError("TraceSplay: %s" % res2["tool_errors"][:3])
    fails = set(re.findall(r'<<"SPLAYFAIL", "(\w+)", (\d+), (\d+)>>', out2))
    hists = vlib.load_sessions(hist)
    by_id = {h["id"]: h for h in hists}
    nev = sum(len(h["events"]) for h in hists)
    for (cls, hid, l) in sorted(fails):
        h = by_id[int(hid)]
        if cls == "contract":
            p = os.path.join(vlib.OUT, "replays", "C17-hist-%s-%s.json" % (hid, l))
            json.dump({"id": h["id"], "keys": h["keys"], "events": h["events"][:int(l)]}, open(p, "w"))
            log("VIOLATION property=C17 replay=%s" % p)
            log("  history %s event %s: %s" % (hid, l, json.dumps(h["events"][int(l) - 1])[:300]))
            nviol += 1
        else:
            drift += 1
            log("SPEC-DRIFT action=%s history %s event %s: tree shape differs from the transcription (contract holds)" % (h["events"][int(l) - 1]["op"], hid, l))
    if ("C17_Contract" in res2["violated"]) != any(f[0] == "contract" for f in fails):
        raise ToolError("inconsistent TraceSplay output")
    log("[C17] histories: %d histories, %d events validated by TLC in %.1fs (%d distinct states)" % (len(hists), nev, dt2, res2["distinct"]))
    ops = {}
    for h in hists:
        for e in h["events"]:
            ops[e["op"]] = ops.get(e["op"], 0) + 1
    for need in ("insert", "remove", "next", "prev", "hold", "check", "iter_next", "iter_back", "iter_nth", "iter_nth_back", "extend", "clear", "get_mut", "index", "index_mut", "is_empty"):
        if ops.get(need, 0) == 0:
            raise ToolError("vacuity: no '%s' event in the recorded histories" % need)
    cov = {
        "states": res["distinct"] + res2["distinct"], "transitions": res["generated"] + res2["generated"],
        "traces_validated_against_impl": len(hists) - len({f[1] for f in fails}),
        "model_transitions_replayed_through_impl": rep["transitions"], "model_states": rep["states"],
        "samples": [{"history": hists[0]["id"], "events": hists[0]["events"][:6]}, {"graph_replay": {k: rep[k] for k in ("states", "transitions", "contract_mismatches", "shape_mismatches", "reference_checks", "reference_mismatches")}}],
        "evaluations": rep["transitions"] + nev, "distinct_nontrivial": rep["transitions"],
        "rule": "evaluations = model transitions replayed through the real tree + recorded history events validated by TLC; distinct non-trivial = distinct (reachable tree shape with values, operation) pairs of the exhaustive model over keys 1..%d, values {1,2}, lookups incl. absent keys, consuming iteration both directions" % n,
        "exhaustive": True, "key_universe": n, "spec_drift": drift, "history_ops": ops,
    }
    vlib.write_evidence("C17", tier, seed, "model_checking", cov, time.time() - t0, nviol, ASSUME17)
    log("[C17] %s: %d violations, %d drift, %.0fs" % (tier, nviol, drift, time.time() - t0))
    return 1 if nviol else 0


def scenario(args_list, path):
    """Run each scenario in its own child process; a crash becomes an event."""
    with open(path, "w") as f:
        for item in args_list:
            # (scenario, n, stack KiB[, build profile]): profile "unopt" = no optimisation + debug assertions (the default `cargo
            # build`): recursion that an optimised build turns into a loop keeps its frames there
            (sc, n, kb), prof = item[:3], (item[3] if len(item) > 3 else "release")
            binp = vlib.build_harness(prof)
            t = time.time()
            try:
                r = subprocess.run([binp, "stack", "--scenario", sc, "--n", str(n), "--stack-kb", str(kb)], stdout=subprocess.PIPE, stderr=subprocess.PIPE, text=True, timeout=1500)
                rc = r.returncode
                outl = [l for l in r.stdout.splitlines() if l.startswith("{")]
            except subprocess.TimeoutExpired:
                rc, outl = -999, []
            if rc == 0 and outl:
                f.write(outl[-1] + "\n")
            else:
                why = "timeout" if rc == -999 else ("signal %d" % -rc if rc < 0 else "exit %d" % rc)
                f.write(json.dumps({"ev": "stack", "scenario": sc, "n": n, "stack_kb": kb, "hwm": 0, "exit": why, "size": 0, "popped": 0, "polys": 0, "area2": 0}) + "\n")
            log("  scenario %-28s n=%-8d stack=%dKiB %s%.1fs" % (sc, n, kb, "" if prof == "release" else "[%s build] " % prof, time.time() - t))


def validate_stack(path, wd, budget):
    cfg = "SPECIFICATION Spec\nCONSTANTS StackBudget = %d\nINVARIANTS\n  C18_Completes\n  C18_StackIndependentOfSize\n  C03_EventBound\n  C01_LargeResultShape\nCHECK_DEADLOCK TRUE\n" % budget
    out, dt = vlib.run_tlc("TraceStack.tla", cfg, wd, env={"TRACEFILE": path}, timeout=600, workers=2)
    res = vlib.parse_tlc(out, {"C18_Completes", "C18_StackIndependentOfSize", "C03_EventBound", "C01_LargeResultShape"})
    if res["tool_errors"]:
        raise ToolError("TraceStack: %s" % res["tool_errors"][:3])
    fails = [(k, int(i)) for (k, i) in set(re.findall(r'<<"STACKFAIL", "(\w+)", (\d+)>>', out))]
    if bool(fails) != bool(res["violated"]):
        raise ToolError("inconsistent TraceStack output")
    return res, fails, dt


STACK_BUDGET = 64 * 1024


def tree_scenarios(tier):
    sc = []
    n = 200000 if tier == "quick" else 3000000
    orders = ["asc", "desc", "zigzag", "random"]
    actions = ["drop", "clear", "iter_front_partial", "iter_back_partial", "iter_all", "iter_all_back", "query", "set_drop", "remove_all",
               "iter_nth_past_end", "iter_nth_back_past_end", "iter_nth_mid_drop", "iter_skip_all", "iter_step_by", "iter_last_fold", "set_iter_nth", "minmax"]
    for o in orders:
        for a in actions:
            if tier == "quick" and o in ("zigzag", "random") and a not in ("drop", "iter_front_partial", "minmax"):
                continue
            sc.append(("tree:%s:%s" % (o, a), n, 8192))
    if tier == "thorough":
        for a in ("drop", "clear", "iter_front_partial", "iter_back_partial", "iter_nth_past_end", "iter_nth_back_past_end", "iter_skip_all", "set_iter_nth", "minmax"):
            sc.append(("tree:asc:%s" % a, 3000000, 2048))
            sc.append(("tree:desc:%s" % a, 3000000, 2048))
    return sc


def bool_scenarios(tier):
    if tier == "quick":
        return [("bool:comb:int", 20000, 8192), ("bool:comb:diff", 20000, 2048), ("bool:comb_subject:diff", 20000, 8192), ("bool:grid:union", 2500, 8192),
                ("bool:needles:int", 30000, 8192), ("bool:needles:diff", 30000, 2048), ("bool:steps:union", 30000, 8192),
                ("bool:hub:union", 30000, 1024), ("bool:hub_right:xor", 30000, 1024)]
    return [("bool:comb:int", 250000, 8192), ("bool:comb:int", 250000, 2048), ("bool:comb:diff", 250000, 2048), ("bool:comb_subject:diff", 250000, 2048),
            ("bool:comb:union", 100000, 8192), ("bool:grid:xor", 40000, 8192), ("bool:stair:int", 1000000, 8192), ("bool:stair:union", 1000000, 2048),
            ("bool:needles:int", 150000, 8192), ("bool:needles:int", 150000, 2048), ("bool:needles:diff", 300000, 8192), ("bool:steps:union", 250000, 8192), ("bool:steps:xor", 250000, 2048),
            ("bool:hub:union", 300000, 8192), ("bool:hub:union", 60000, 2048), ("bool:hub_right:xor", 100000, 2048)]


def run_c18(tier, seed, t0):
    wd = os.path.join(vlib.OUT, "C18")
    os.makedirs(wd, exist_ok=True)
    # the design requirement in the model: every operation needs O(1) frames on every reachable tree
    out, res, dt = mc_splay(4 if tier == "quick" else 5, False, os.path.join(wd, "mc"))
    if res["tool_errors"] or res["violated"]:
        raise ToolError("MC_Splay (stack model): %s" % (res["tool_errors"] + res["violated"])[:3])
    log("[C18] MC_Splay stack model: %d distinct states, C18_StackBounded holds, %.1fs" % (res["distinct"], dt))
    path = os.path.join(wd, "stack.ndjson")
    scs = tree_scenarios(tier) + bool_scenarios(tier)
    # a sample of the same scenarios in a build WITHOUT optimisation (debug assertions on): recursion that the optimiser
    # turns into a loop keeps its frames there - one long result contour, stacked result edges, a long sweep line dropped early
    ts = tree_scenarios(tier)
    scs += [(sc, n, min(kb, 1024), "unopt") for (sc, n, kb) in ts[::max(1, len(ts) // 8)]]
    k = 1 if tier == "quick" else 5
    scs += [("bool:stair:union", 60000 * k, 1024, "unopt"), ("bool:steps:union", 30000 * k, 1024, "unopt"), ("bool:comb:int", 40000 * k, 1024, "unopt"), ("bool:hub:union", 20000 * k, 1024, "unopt")]
    scenario(scs, path)
    res2, fails, dt2 = validate_stack(path, os.path.join(wd, "trace"), STACK_BUDGET)
    evs = vlib.load_sessions(path)
    nviol = 0
    os.makedirs(os.path.join(vlib.OUT, "replays"), exist_ok=True)
    for (kind, i) in sorted(fails, key=lambda x: x[1]):
        e = evs[i - 1]
        p = os.path.join(vlib.OUT, "replays", "C18-%s-%d-%d.json" % (e["scenario"].replace(":", "_"), e["n"], e["stack_kb"]))
        json.dump(e, open(p, "w"))
        log("VIOLATION property=C18 replay=%s" % p)
        log("  %s: scenario %s n=%d stack=%dKiB exit=%s hwm=%d bytes (budget %d)" % (kind, e["scenario"], e["n"], e["stack_kb"], e["exit"], e["hwm"], STACK_BUDGET))
        nviol += 1
    cov = {
        "evaluations": len(evs), "distinct_nontrivial": len({(e["scenario"], e["n"], e["stack_kb"]) for e in evs if e["n"] >= 10000}),
        "rule": "one evaluation = one scenario (insertion order x action, or Boolean operation on a structured large input) run in a child process with a painted stack; non-trivial = at least 10^4 elements/edges; judged by TLC (TraceStack.tla): exit ok and high-water mark <= %d bytes independent of n" % STACK_BUDGET,
        "samples": evs[:3] + evs[-2:], "states": res["distinct"] + res2["distinct"], "transitions": res["generated"] + res2["generated"],
        "traces_validated_against_impl": len(evs) - len({i for (_, i) in fails}),
        "max_hwm_bytes": max([e["hwm"] for e in evs] + [0]), "largest_n": max([e["n"] for e in evs] + [0]),
    }
    vlib.write_evidence("C18", tier, seed, "exploration", cov, time.time() - t0, nviol, ASSUME18)
    log("[C18] %s: %d scenarios, max hwm %d bytes, %d violations, %.0fs" % (tier, len(evs), cov["max_hwm_bytes"], nviol, time.time() - t0))
    return 1 if nviol else 0


def run(prop, tier, seed, t0):
    return run_c17(tier, seed, t0) if prop == "C17" else run_c18(tier, seed, t0)


def replay(prop, path, seed):
    rec = json.load(open(path))
    if prop == "C18":
        wd = os.path.join(vlib.OUT, "C18", "replay")
        os.makedirs(wd, exist_ok=True)
        p = os.path.join(wd, "stack.ndjson")
        scenario([(rec["scenario"], rec["n"], rec["stack_kb"])], p)
        _, fails, _ = validate_stack(p, os.path.join(wd, "trace"), STACK_BUDGET)
        log("[C18] replay: %s" % ("violation reproduced" if fails else "no violation"))
        return 1 if fails else 0
    log("[C17] replay files are literal transitions/histories; re-run `bin/check C17 quick` (deterministic for a given VERIF_SEED) to reproduce")
    return run_c17("quick", seed, time.time())
