#!/bin/bash
# every thorough command once, on the tree named by VP_RUN_REPO (development aid for `vp run --with-repo`)
bin/setup > out_setup.log 2>&1 || true
for c in C17 C18 C08 C07 C05 C12 C10 C09 C06 C16 C15 C13 C14 C04 C02 C11 C03 C01; do
  s=$(date +%s); bin/check $c thorough > thorough_$c.log 2>&1; echo "$c exit=$? $(( $(date +%s)-s ))s viol=$(grep -c '^VIOLATION' thorough_$c.log) known=$(grep -c '^KNOWN-FINDING' thorough_$c.log) drift=$(grep -c 'SPEC-DRIFT' thorough_$c.log) tool=$(grep -c 'TOOL-ERROR' thorough_$c.log)"
done
