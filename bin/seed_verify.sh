#!/bin/bash
# usage: seed_verify.sh <PID> [name]   -- confirm a sub-agent's seeded change in its scratch worktree
# and store it under /verif/seeded/<name>/ (patch.diff, demo, verify.log)
pid=$1; name=${2:-$1}; wt=/tmp/wt_$pid; dst=/verif/seeded/$name
set -u
cd $wt || exit 2
mkdir -p $dst
demo=$(ls lib/examples/ 2>/dev/null | grep -i demo | head -1); ex=${demo%.rs}
{
echo "## worktree $wt, patch:"; git diff -- lib/src > /tmp/seed_$pid.diff; cat /tmp/seed_$pid.diff
echo "## tests with patch"; cargo test --workspace --offline 2>&1 | grep -E "^test result|FAILED|panicked" 
echo "## demo with patch"; cargo run --offline -q -p geo-booleanop --example $ex 2>&1 | tail -5; echo "demo_exit_with_patch=${PIPESTATUS[0]}"
# (not `git stash`: refs/stash is shared by all worktrees of the repository and concurrent seeders pop each other's entries)
git checkout -q -- lib/src
echo "## demo without patch"; cargo run --offline -q -p geo-booleanop --example $ex 2>&1 | tail -3; echo "demo_exit_without_patch=${PIPESTATUS[0]}"
git apply /tmp/seed_$pid.diff
} > $dst/verify.log 2>&1
cp /tmp/seed_$pid.diff $dst/patch.diff; cp lib/examples/$demo $dst/ 2>/dev/null
grep -E "test result|demo_exit" $dst/verify.log
