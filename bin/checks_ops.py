"""Checks for the public Boolean operations (C01..C12): sessions recorded from the real library
are validated by TLC against BoolOps.tla through TraceOps.tla."""
import json
import os
import time

import vlib
import model_sweep
from vlib import ToolError, log

# Layer M runs attached to a property: (family, N, L, stride quick, stride thorough, use_shortcuts, invariants)
# family "gen:<generator family>": Layer M on the inputs of a generator family of the harness (MC_Sweep Family "file"); the
# two numbers are then the stride through an enumerated family (en:...) or the number of operand pairs (quick, thorough)
ALLM = ["M_ResultRegion", "M_Nesting", "M_Provenance", "M_EventBound", "M_NoPanic", "M_Subdivision", "M_Classification"]
MODEL_PLAN = {
    "C01": [("tri", 2, 840, 24, 1, True, ["M_ResultRegion", "M_EventBound", "M_NoPanic"]), ("pair", 2, 840, 4000, 150, True, ["M_ResultRegion", "M_NoPanic"]),
            ("gen:en:3x2:4:0_0:s", 2, 1, 128, 8, True, ALLM), ("gen:hang", 2, 1, 25, 400, True, ALLM)],
    "C02": [("nest2", 2, 840, 6, 1, True, ["M_Nesting", "M_ResultRegion", "M_NoPanic"]), ("nest", 3, 1, 60, 4, True, ["M_Nesting", "M_NoPanic"]),
            ("star3", 2, 840, 30, 2, True, ["M_Nesting", "M_ResultRegion", "M_Provenance", "M_NoPanic"]),   # three rings through one least vertex, also as holes
            ("gen:pinch", 2, 1, 20, 300, True, ALLM), ("gen:onion", 2, 1, 15, 200, True, ALLM), ("gen:lamina", 2, 1, 0, 60, True, ALLM)],
    "C03": [("quad", 2, 840, 120, 8, True, ["M_EventBound", "M_NoPanic"]), ("pairB", 2, 840, 3000, 300, True, ["M_EventBound", "M_NoPanic"]),
            ("gen:teeth", 2, 1, 25, 400, True, ALLM)],
    "C04": [("quad", 2, 840, 150, 12, True, ["M_Provenance", "M_NoPanic"]), ("isl2", 2, 840, 16, 2, True, ["M_Provenance", "M_Nesting"]),   # islands inside a hole: ring orientation at depth 2
            ("gen:cxsplit", 2, 1, 30, 400, True, ALLM)],
    "C09": [("tri", 2, 840, 40, 3, False, ["M_ResultRegion", "M_NoPanic"]), ("nest2", 2, 840, 12, 2, False, ["M_ResultRegion", "M_Nesting"]),
            ("gen:hang", 2, 1, 30, 400, False, ["M_ResultRegion", "M_Nesting", "M_NoPanic"])],
}

PROPS = ["C01", "C02", "C03", "C04", "C05", "C06", "C07", "C08", "C09", "C10", "C11", "C12"]

EXACT = "cx,rect,cxmix,cxshift,rectw,cxabut,cxsub,frames"
ROUND = "aff-cx,aff-cxmix,aff-cxshift,aff-rect,aff-cxabut,aff-cxsub,lat"
ALLF = EXACT + ",pinch,holefill,teeth," + ROUND      # "pinch" (many rings through one vertex) is exact too, but has no degenerate variants (kind deg)
SHARED = "cx,rect,cxabut,cxsub,cxshift,cxmix,aff-cx,rectw,frames,aff-cxabut,frames,lat,pinch,holefill,teeth,onion"      # weighted towards shared boundary segments


def ops(kind, fams, count, kmax=3, max_edges=120):
    return ("ops", kind, fams, count, kmax, max_edges)


def tri(n, l, stride=1, offset=0):
    return ("tri", n, l, stride, offset)


def corpus(name):
    return ("corpus", name)


def enum(kind, fam, stride):
    """every stride-th pair of an ENUMERATED family (gen.rs `en:...`: all ordered pairs of subsets of a
    small triangulated lattice); stride 1 = exhaustive; the offset inside a stride depends on VERIF_SEED"""
    return ("enum", kind, fam, stride)


# FLOAT families (harness/src/fwit.rs): lattice operands with kept collinear vertices (every contact vertex-to-vertex, along
# identical edges, or a proper crossing at a cell centre) under a random affine map with irrational entries, rounded to
# f64 / f32 - no image in the integer domain; judged at witness points by exact arithmetic on the floats (FloatGeometry.tla)
ROTF = "rot-cx,rot-rect,rot-cxmix,rot-cxabut,rot-cxsub"
ROTCHAIN = "rot-cx,rot-rect,rot-cxabut,rot-cxsub"        # no computed points in results: they can be fed back
EN_RECT = "en:3x2:4:0_0:s"        # 64 x 64 rectilinear cell sets (shared edges, collinear chains, T-touches on verticals)
EN_RECTK = "en:3x2:4:0_0:k"       # the same with collinear vertices kept
EN_TRI = "en:2x2:3:0_0:s"         # 256 x 256 subsets of 8 triangles (alternating diagonals; octilinear)
EN_BOTH = "en:2x1:2:0_0:s"        # 256 x 256 subsets of the 8 triangles of two cells cut by both diagonals
EN_SHIFT = "en:2x2:4/0:1_1:s"     # 16 cell sets x 256 triangle sets on a lattice shifted by half a cell (proper crossings)
EN_MIX = "en:2x1:0/1:0_0:k"       # 16 x 16: opposite diagonals (crossings at cell centres)
EN_HOLE = "en:3x3:4:0_0:s"        # 512 x 512 cell sets of a 3x3 grid (holes, diagonal neighbours): sampled


# step = (label, laws, onlyF, profile, [batches])
def plan(prop, tier):
    q = tier == "quick"
    P = {
        "C01": [("region", {"C01"}, "any", "release",
                 [corpus("big27.ndjson"), corpus("fixed_findings.ndjson"), corpus("hand.ndjson"),
                  ops("single", ALLF, 480 if q else 4000, 3 if q else 4, 120 if q else 160),
                  ops("single", "lat,frames,lat,fan,tfan,hang,cxsplit,hang,tshare,tshare", 1000 if q else 10000, 3, 120),   # tshare: a vertex of another part on the interior of an edge shared by both operands   # general slopes, boxes overlapping only a little, thinnest wedges
                  ops("single", "pinch,holefill,onion,teeth,pinch,lamina", 600 if q else 6000, 3, 120),   # many rings through one vertex (also as a T-touch on the edge below), nested operands, interlocking operands
                  ("fixedops", "witness", "latraw", 2000 if q else 12000, 3, 120, 20260926),   # general position, inexact crossings: judged at witness points (C01_Witness); fixed set, see finding N8
                  ops("single", "bigfan23,bigsliver25,bigfan25,bigsliver20", 200 if q else 2000, 3, 120),   # beyond 2^12 (differences <= 2^25, see DESIGN N5): touch-only operands, arithmetic-free laws
                  ops("fwit", ROTF, 300 if q else 6000, 3 if q else 4, 120 if q else 200), ops("fwit32", ROTF, 150 if q else 3000, 3, 120),   # float operands (irrational affine images), witness points, exact arithmetic on the floats
                  enum("fwit", "rot-" + EN_RECTK, 16 if q else 1), enum("fwit", "rot-" + EN_MIX, 2 if q else 1),
                  ("fixedops", "fwit", "fstar,fneedle", 700 if q else 9000, 3, 120, 20260928), ("fixedops", "fwit32", "fstar,fneedle", 400 if q else 5000, 3, 120, 20260929),   # star-shaped float polygons in general position (every meeting point a proper crossing at an irrational place); a FIXED batch like the witness batch

                  enum("single", EN_RECT, 8 if q else 1), enum("single", EN_TRI, 128 if q else 4), enum("single", EN_SHIFT, 8 if q else 1), enum("single", EN_MIX, 1),   # enumerated: every pair of subsets of a small triangulated lattice
                  tri(2, 840, 3 if q else 1, 0)] + ([] if q else [ops("single", EXACT, 600, 6, 260), enum("single", EN_RECTK, 1), enum("single", EN_BOTH, 4), enum("single", EN_HOLE, 32)]))],
        "C02": [("nesting", {"C02"}, "any", "release",
                 [corpus("fixed_findings.ndjson"), corpus("hand.ndjson"),
                  ops("single", SHARED, 600 if q else 5000, 3 if q else 4, 120 if q else 160),
                  ops("single", "cxabut,cxsub,rect,cxabut", 400 if q else 4000, 5, 220),   # larger regions: holes above shared segments
                  ops("single", "lamina,onion,lamina,holefill,pinch,cxsplit,tshare", 700 if q else 7000, 3, 200),   # nesting: holes above holes, islands stacked in one hole, polygons starting in between
                  ops("fwit", "rot-cxabut,rot-cxsub,rot-cx,rot-rect", 300 if q else 5000, 4, 200), enum("fwit", "rot-en:3x3:4:0_0:k", 1024 if q else 32),   # nesting on float operands (holes, islands), judged at witness points
                  enum("single", EN_HOLE, 512 if q else 16), enum("single", EN_RECT, 8 if q else 1),   # enumerated cell sets of a 3x3 grid (holes, diagonal neighbours) and of a 3x2 grid (exhaustive in thorough)
                  tri(2, 840, 3 if q else 1, 1)] + ([] if q else [ops("single", "cx,rect", 600, 6, 260), enum("single", EN_TRI, 8)]))],
        "C04": [("provenance", {"C04"}, "any", "release",
                 [corpus("fixed_findings.ndjson"), corpus("hand.ndjson"),
                  ops("single", ALLF, 600 if q else 5000, 3 if q else 4, 120 if q else 160),
                  ops("deg", EXACT, 40 if q else 200),
                  ops("single", "rectw", 700 if q else 6000, 4, 160), ops("five", "rectw", 60 if q else 600, 3, 120),
                  ops("single", "tfan,fan,lat", 300 if q else 3000, 3, 120),
                  ops("single", "lamina,pinch,onion,lamina", 400 if q else 4000, 3, 200),   # ring orientation at nesting depth >= 2
                  ops("fwit", ROTF, 300 if q else 1500, 3 if q else 4, 120 if q else 200), ops("fwit32", ROTF, 150 if q else 750, 3, 120),   # float operands: provenance within tolerance, decided exactly on the floats (C04_F)
                  enum("fwit", "rot-en:2x1:2:0_0:k", 256 if q else 16), ("fixedops", "fwit", "fneedle,fstar,fneedle", 600 if q else 8000, 3, 120, 20260930), ("fixedops", "fwit32", "fneedle,fstar", 300 if q else 4000, 3, 120, 20260931),   # shallow crossings of long thin rectangles in general position (badly conditioned meeting points): vertices must stay within 128 ulps of both edges
                  enum("single", EN_BOTH, 128 if q else 4), enum("single", EN_SHIFT, 8 if q else 1)] + ([] if q else [enum("single", EN_RECTK, 1)]) + [
                  tri(2, 840, 3 if q else 1, 2)])],
        "C05": [("partition", {"C05"}, "any", "release",
                 [ops("five", ALLF, 300 if q else 3000, 3 if q else 4, 100 if q else 140), ops("five", "pinch,holefill,onion,teeth,pinch,lamina,hang,cxsplit,tshare,hang", 600 if q else 6000, 3, 120),
                  enum("five", EN_RECT, 16 if q else 1), enum("five", EN_TRI, 512 if q else 16),
                  ops("fwit", ROTF, 250 if q else 2500, 3, 120), ops("fwit32", ROTF, 100 if q else 1000, 3, 120)])],    # float operands: all four operations and a swapped call on one pair, judged at witness points
        "C06": [("algebra", {"C06"}, "any", "release",
                 [ops("five", ALLF, 200 if q else 2000, 3 if q else 4, 100 if q else 140),
                  ops("five", "teeth", 3000 if q else 20000, 3, 100),     # interlocking operands: cheap sessions, at volume
                  ops("five", "cxshift,aff-cxshift,cxshift,lat", 600 if q else 6000, 3, 100),   # lattices shifted against each other: partial collinear overlaps on oblique lines, either operand starting first
                  ops("far", ALLF, 120 if q else 1000, 3, 100),
                  ops("five", "cxsplit", 300 if q else 3000, 3, 100),
                  ops("fwit", ROTF, 250 if q else 2500, 3, 120), ops("fwit32", ROTF, 120 if q else 1200, 3, 120),   # float operands: A op A (every edge shared bit for bit) and swapped operands at witness points     # bounding boxes that merely touch: tips on the interior of a long side, sides shared in part
                  enum("five", EN_RECTK, 16 if q else 1), enum("five", EN_SHIFT, 16 if q else 2), enum("five", EN_MIX, 2 if q else 1),
                  ops("deg", EXACT, 60 if q else 300)])],
        "C07": [("representation", {"C07"}, "any", "release",
                 [ops("repr", ALLF, 120 if q else 1200, 3 if q else 4, 90 if q else 130),
                  ops("repr", "pinch,holefill,pinch,cxsub,onion", 160 if q else 1600, 3, 120),
                  ops("repr", "rect,cxabut,frames,tshare,cxsplit,teeth,cxsub", 400 if q else 4000, 3, 90),   # partial collinear overlaps between multi-part operands: the result must not depend on the order in which the parts are listed    # single polygons with (triangular / rectangular) holes: polygon vs one-element multipolygon
                  ops("repr", "bigsliver25,bigfan25,bigsliver20", 90 if q else 900, 3, 90),
                  ops("repr32", "bigsliver20,bigsliver14,bigfan22,bigsliver23", 120 if q else 1200, 3, 90)])],
        "C08": [("transforms", {"C08"}, "any", "release",
                 [ops("xform", ALLF, 200 if q else 2000, 3 if q else 4, 100 if q else 140), ops("xform", "tshare,cxsplit,hang,tshare", 300 if q else 3000, 3, 100)])],   # configurations whose treatment depends on the sweep direction: every symmetry of them
        "C09": [("farparts", {"C09"}, "any", "release",
                 [ops("far", ALLF, 250 if q else 2500, 3 if q else 4, 100 if q else 140), ops("far", "lat,hang,frames,hang", 400 if q else 4000, 3, 100),
                  ops("fwit", ROTF, 300 if q else 3000, 3, 120), ops("fwit32", ROTF, 120 if q else 1200, 3, 120)])],    # float operands, one session in three with a far part on A (a base operand of its own)     # hang: slivers reaching into the other operand's box from outside
        "C10": [("f32-agrees", {"C10"}, "any", "release",
                 [corpus("fan_f32.ndjson"), ops("f32", ALLF, 250 if q else 2500, 3 if q else 4, 100 if q else 140),
                  ops("f32", "fan", 250 if q else 2500, 3, 100), ops("f32", "bigfan23,bigfan24,bigfan20", 400 if q else 4000, 3, 100)]),
                ("f32-guarantees", {"C01", "C02", "C03", "C04", "C05", "C06"}, "f32", "release",
                 [corpus("fan_f32.ndjson"), ops("f32", ALLF, 150 if q else 1200, 3, 100), ops("f32", "fan", 150 if q else 1500, 3, 100), ops("fwit32", ROTF, 200 if q else 2000, 3, 120), ("fixedops", "fwit32", "fneedle,fstar", 200 if q else 2000, 3, 120, 20260932),
                  ops("f32", "bigfan23,bigfan24", 200 if q else 2000, 3, 100)])],
        "C11": [("chains", {"C11", "C03", "C02"}, "any", "release",
                 [ops("chain", EXACT, 120 if q else 1000, 3, 90), ops("chain3", EXACT, 40 if q else 500, 2, 60),
                  ops("chain", "frames,cxabut,cxsub,frames,rect", 500 if q else 5000, 3, 90), ops("chain", "holefill", 400 if q else 3000, 3, 120), ops("chain3", "frames,cxabut", 120 if q else 1200, 3, 70),
                  ops("fchain", ROTCHAIN, 200 if q else 3000, 3, 120)])],      # chained calls on float operands (irrational affine images), witness points
        "C12": [("purity", {"C12"}, "any", "release",
                 [("fixtures",), ("prochist", "pf32", "fan,bigfan23,lat,bigfan24,cx,bigsliver20,aff-cx", 280 if q else 2800, 3, 100),
                  ("prochist", "pf64", "fan,lat,cx,bigsliver25,aff-cx", 100 if q else 1000, 3, 100),
                  ops("pure", ALLF, 60 if q else 500, 3, 120), ops("pure", "latraw", 80 if q else 800, 3, 120), ops("repr", EXACT, 20 if q else 100, 3, 90),
                  ops("history", "cx,cxmix,cxshift,aff-cx", 8 if q else 60, 4, 200)])],
        "C03": [("returns-release", {"C03"}, "any", "release",
                 [("fixtures",), ("rawcorpus", "ttouch.in"), ("rawcorpus", "runaway.in"), corpus("ttouch_int.ndjson"), ("fixedops", "single", "latraw", 600 if q else 18000, 3, 120, 20260927), corpus("ulp.ndjson"), corpus("ulp_frames.ndjson"), corpus("fixed_findings.ndjson"), corpus("hand.ndjson"), corpus("fan_f32.ndjson"),
                  ops("single", ALLF, 400 if q else 4000, 3 if q else 5, 140 if q else 240),
                  ops("deg", EXACT, 60 if q else 400), ops("chain", EXACT, 40 if q else 300, 3, 90),
                  enum("single", EN_TRI, 256 if q else 4), enum("single", EN_BOTH, 256 if q else 8), ops("fwit", ROTF, 150 if q else 1500, 3, 120), ops("fwit32", ROTF, 100 if q else 1000, 3, 120),
                  tri(2, 840, 5 if q else 1, 3)]),
                ("returns-debug-assertions", {"C03"}, "any", "dbg",
                 [("fixtures",), ("rawcorpus", "ttouch.in"), corpus("ttouch_int.ndjson"), corpus("ulp_f32_dbgpass.ndjson"), corpus("fixed_findings.ndjson"), corpus("hand.ndjson"),
                  ops("single", ALLF, 400 if q else 4000, 3 if q else 5, 140 if q else 240), ("fixedops", "single", "latraw", 600 if q else 18000, 3, 120, 20260927),   # general position: a FIXED batch (random exploration meets N1 / N2 / N7 about once in 5000 sessions)
                  ops("deg", EXACT, 60 if q else 400), ops("far", EXACT, 40 if q else 300),
                  enum("single", EN_RECT, 16 if q else 1), enum("single", EN_SHIFT, 16 if q else 1), enum("single", EN_HOLE, 1024 if q else 64), ops("fwit", ROTF, 150 if q else 1500, 3, 120), ops("fwit32", ROTF, 100 if q else 1000, 3, 120),
                  tri(2, 840, 5 if q else 1, 4)])],
    }
    steps = P[prop]
    if not q:
        # thorough: the cheap properties get proportionally more sessions (measured: 1-3 min each before)
        f = {"C03": 3, "C04": 4, "C05": 4, "C06": 2, "C07": 3, "C08": 6, "C09": 3, "C10": 4, "C12": 3}.get(prop, 1)
        steps = [(lb, lw, of, pr, [(b[0], b[1], b[2], b[3] * f) + tuple(b[4:]) if b[0] in ("ops", "prochist") else b for b in bs]) for (lb, lw, of, pr, bs) in steps]
    return steps


def record_step(prop, step_idx, label, profile, batches, seed, workdir):
    """Record all batches of a step into one trace file with consecutive session ids."""
    path = os.path.join(workdir, "trace.ndjson")
    if os.path.exists(path):
        os.remove(path)
    sid0 = 1
    for bi, b in enumerate(batches):
        bseed = (seed * 7919 + step_idx * 101 + bi * 13 + sum(map(ord, prop))) % (1 << 31)
        if b[0] == "fixedops":
            # a FIXED set of generated sessions (its seed does not depend on VERIF_SEED): where the
            # unchanged library is known to fail on some members, the members are listed by input hash
            _, kind, fams, count, kmax, max_edges, fseed = b
            vlib.vh(["rec-ops", "--kind", kind, "--family", fams, "--count", count, "--seed", fseed, "--kmax", kmax,
                     "--max-edges", max_edges, "--sid0", sid0], path, profile=profile, append=True)
            sid0 += count
        elif b[0] == "enum":
            _, kind, fam, stride = b
            total = int(vlib.vh_out(["enum-total", "--family", fam], profile=profile))
            start = bseed % stride
            count = (total - start + stride - 1) // stride
            vlib.vh(["rec-ops", "--kind", kind, "--family", fam, "--count", count, "--seed", bseed, "--kmax", 3, "--max-edges", 400,
                     "--sid0", sid0, "--enum-from", start, "--enum-stride", stride], path, profile=profile, append=True)
            sid0 += count
        elif b[0] == "ops":
            _, kind, fams, count, kmax, max_edges = b
            vlib.vh(["rec-ops", "--kind", kind, "--family", fams, "--count", count, "--seed", bseed, "--kmax", kmax,
                     "--max-edges", max_edges, "--sid0", sid0], path, profile=profile, append=True)
            sid0 += count
        elif b[0] == "prochist":
            # the same sessions recorded in two PROCESSES: this coordinate type first vs after a
            # warm-up call in the other type; merged so that C12 compares equal calls across them
            _, kind, fams, count, kmax, max_edges = b
            other = "f64" if kind == "pf32" else "f32"
            t1, t2 = os.path.join(workdir, "ph1.tmp"), os.path.join(workdir, "ph2.tmp")
            common = ["rec-ops", "--kind", kind, "--family", fams, "--count", count, "--seed", bseed, "--kmax", kmax, "--max-edges", max_edges, "--sid0", sid0]
            vlib.vh(common, t1, profile=profile)
            vlib.vh(common + ["--warm", other], t2, profile=profile)
            with open(t1) as f1, open(t2) as f2, open(path, "a") as g:
                for l1, l2 in zip(f1, f2):
                    d1, d2 = json.loads(l1), json.loads(l2)
                    if [e for e in d1["events"] if e["ev"] == "def"] != [e for e in d2["events"] if e["ev"] == "def"]:
                        raise ToolError("prochist: the two recordings of session %s differ in their inputs" % d1["sid"])
                    for e in d2["events"]:
                        if e["ev"] == "call":
                            e = dict(e)
                            e["res"] = e["res"] + "w"
                            e["proc"] = "after-" + other
                            d1["events"].append(e)
                    g.write(json.dumps(d1, separators=(",", ":")) + "\n")
            os.remove(t1)
            os.remove(t2)
            sid0 += count
        elif b[0] == "tri":
            _, n, l, stride, off = b
            ntri = {2: 76}.get(n)
            tmp = os.path.join(workdir, "tri.tmp")
            start = (off + bseed) % stride if stride > 1 else 0
            vlib.vh(["rec-tri", "--n", n, "--l", l, "--from", start, "--stride", stride, "--sid0", sid0], tmp, profile=profile)
            with open(tmp) as f, open(path, "a") as g:
                k = 0
                for line in f:
                    g.write(line)
                    k += 1
            os.remove(tmp)
            sid0 += k
        elif b[0] in ("fixtures", "rawcorpus"):
            fx = os.path.join(workdir, "fixtures.in") if b[0] == "fixtures" else os.path.join(vlib.CORPUS, b[1])
            if b[0] == "fixtures":
                vlib.fixtures_file(fx)
            tmp = os.path.join(workdir, "fx.tmp")
            vlib.vh(["rec-fixtures", "--file", fx], tmp, profile=profile)
            with open(tmp) as f, open(path, "a") as g:
                k = 0
                for line in f:
                    d = json.loads(line)
                    d["sid"] = sid0 + k
                    g.write(json.dumps(d, separators=(",", ":")) + "\n")
                    k += 1
            os.remove(tmp)
            sid0 += k
        elif b[0] == "corpus":
            src = os.path.join(vlib.CORPUS, b[1])
            if not os.path.exists(src):
                continue
            tmp = os.path.join(workdir, "corpus.tmp")
            vlib.vh(["rerun", "--file", src, "--sid0", sid0], tmp, profile=profile)
            with open(tmp) as f, open(path, "a") as g:
                k = 0
                for line in f:
                    g.write(line)
                    k += 1
            os.remove(tmp)
            sid0 += k
    return path


def report(prop, fails_by_step, known):
    """Turn law failures into VIOLATION / KNOWN-FINDING lines. Returns (violations, known_hits)."""
    nviol = 0
    nknown = 0
    seen = set()
    open_known = {k["input_hash"]: k for k in known if k.get("status") == "open" and k.get("property") == prop and "input_hash" in k}
    for (label, sessions, fails) in fails_by_step:
        by_sid = {s["sid"]: s for s in sessions}
        for (law, sid, l) in sorted(fails):
            sess = by_sid[sid]
            path, h = vlib.write_replay(prop, sess, l, law)
            if h in seen:
                continue
            seen.add(h)
            if h in open_known:
                nknown += 1
                log("KNOWN-FINDING: property=%s %s" % (prop, open_known[h].get("what", h)))
            else:
                nviol += 1
                ev = sess["events"][l - 1]
                log("VIOLATION property=%s replay=%s" % (prop, path))
                log("  law=%s step=%s family=%s kind=%s seed=%s event=%d %s" % (
                    law, label, sess["family"], sess["kind"], sess["seed"], l,
                    ("%s(%s,%s) %s%s %s outcome=%s %s" % (ev.get("op"), ev.get("x"), ev.get("y"), ev.get("px"), ev.get("py"), ev.get("F"), ev.get("outcome"), ev.get("msg", "")[:120])) if ev["ev"] == "call" else "def " + ev.get("name", "")))
    return nviol, nknown


ASSUME = [
    "operands are valid by construction (unions of triangles of a triangulated lattice, rings traced by the generator); the generator is trusted for validity",
    "TLC (tla2tools 1.8.0) evaluates the Layer P operators of Geometry/Oracle/BoolOps correctly; coordinates stay below 2^12 so that 32-bit arithmetic is exact (TLC stops on overflow)",
    "the recorder snaps each returned coordinate to the nearest integer and reports the deviation; inputs whose exact intersection points are not integral are outside the decided domain",
]


def run(prop, tier, seed, t0):
    steps = plan(prop, tier)
    known = vlib.load_known()
    tot_gen = tot_dist = tot_sessions = 0
    undecided_total = 0
    all_sessions = []
    fails_by_step = []
    per_step = []
    for si, (label, laws, onlyf, profile, batches) in enumerate(steps):
        wd = os.path.join(vlib.OUT, prop, "%d-%s" % (si, label))
        os.makedirs(wd, exist_ok=True)
        trace = record_step(prop, si, label, profile, batches, seed, wd)
        sessions = vlib.load_sessions(trace)
        res = vlib.validate_ops(trace, laws, onlyf, wd, timeout=7200 if tier == "thorough" else 1500)
        log("[%s] step %s: %d sessions, laws=%s onlyF=%s profile=%s: %d states, %d law failures, TLC %.1fs" % (
            prop, label, len(sessions), ",".join(sorted(laws)), onlyf, profile, res["distinct"], len(res["lawfails"]), res["seconds"]))
        if res["undecided"]:
            log("UNDECIDED property=%s %d calls returned geometry outside the integer domain (a result vertex is no arrangement vertex of the inputs and its edges meet input edges in non-integral points): the region laws cannot be evaluated for them; `bin/check C04` reports the cause" % (prop, len(res["undecided"])))
        undecided_total += len(res["undecided"])
        tot_gen += res["generated"]
        tot_dist += res["distinct"]
        failed_sids = {f[1] for f in res["lawfails"]}
        tot_sessions += len(sessions) - len(failed_sids)
        all_sessions += sessions
        fails_by_step.append((label, sessions, res["lawfails"]))
        per_step.append({"step": label, "laws": sorted(laws), "onlyF": onlyf, "profile": profile, "sessions": len(sessions),
                         "tlc_distinct_states": res["distinct"], "tlc_seconds": round(res["seconds"], 1)})
    layer_m = []
    all_laws = set()
    for (_, lw, _, _, _) in steps:
        all_laws |= lw
    for mi, (fam, n, l, sq, st, sc, invs) in enumerate(MODEL_PLAN.get(prop, [])):
        stride = sq if tier == "quick" else st
        if stride == 0:
            continue
        mwd = os.path.join(vlib.OUT, prop, "model-%d-%s" % (mi, fam.replace(":", "_").replace("/", "_")))
        if fam.startswith("gen:"):
            r = model_sweep.model_and_replay(prop, mwd, generator=(fam[4:], stride, seed * 7 + mi), n=n, l=l, stride=1, offset=0,
                                             use_shortcuts=sc, invs=invs + ["M_StatusLineSorted"], replay=sc, timeout=10000)
        else:
            r = model_sweep.model_and_replay(prop, mwd, family=fam, n=n, l=l, stride=stride,
                                             offset=(seed * 7 + mi) % stride, use_shortcuts=sc, invs=invs + ["M_StatusLineSorted"], replay=sc, timeout=10000)
        inputs = r.pop("inputs")
        r.update({"family": fam, "lattice": n + 1, "scale": l, "stride": stride, "use_shortcuts": sc, "invariants": invs})
        if inputs:
            # the model's inputs, answered by the real code, judged by the contract (Layer P)
            src = os.path.join(mwd, "inputs.ndjson")
            trace = os.path.join(mwd, "trace.ndjson")
            r["sessions_to_contract"] = model_sweep.inputs_as_sessions(inputs, src, fam.replace("gen:", "gen/"))
            vlib.vh(["rerun", "--file", src, "--sid0", 1], trace)
            sessions = vlib.load_sessions(trace)
            res = vlib.validate_ops(trace, all_laws, "any", os.path.join(mwd, "contract"))
            log("[%s] Layer M inputs (%s) answered by the real code, judged by the contract: %d sessions, %d states, %d law failures, TLC %.1fs" % (
                prop, fam, len(sessions), res["distinct"], len(res["lawfails"]), res["seconds"]))
            fails_by_step.append(("layerM-" + fam, sessions, res["lawfails"]))
            all_sessions += sessions
            tot_gen += res["generated"]
            tot_dist += res["distinct"]
        layer_m.append(r)
        tot_gen += r["transitions"]
        tot_dist += r["states"]
    nviol, nknown = report(prop, fails_by_step, known)
    abstract = None
    if prop in ("C05", "C06", "C07", "C09", "C11", "C12"):
        # the law this check enforces on traces is a consequence of the contract in the abstract machine
        ra, dta = vlib.abstract_laws(os.path.join(vlib.OUT, prop, "abstract"), maxcalls=2 if tier == "quick" else 2)
        if ra["tool_errors"] or ra["violated"]:
            raise ToolError("BoolOpsAbs: the relational laws are not consequences of the contract in the abstract machine: %s" % (ra["tool_errors"] + ra["violated"])[:3])
        log("[%s] abstract call-history machine (BoolOpsAbs): %d states, every relational law is a consequence of the contract (%.0fs)" % (prop, ra["distinct"], dta))
        abstract = {"states": ra["distinct"], "seconds": round(dta, 1)}
        if prop in ("C05", "C06", "C09", "C11"):
            nob, dtp = vlib.prove_laws(os.path.join(vlib.OUT, prop, "tlaps"))
            log("[%s] TLAPS (BoolOpsLaws): %d obligations proved - the same laws for arbitrary regions, unbounded (%.0fs)" % (prop, nob, dtp))
            abstract["tlaps_obligations_proved"] = nob
            abstract["tlaps_seconds"] = round(dtp, 1)
        tot_gen += ra["generated"]
        tot_dist += ra["distinct"]
    big_events = []
    combs = [("bool:%s:%s" % (sh, o), t, 8192) for t in ((18, 24, 40) if tier == "quick" else (18, 24, 40, 64, 100, 160)) for sh in ("combx", "combxfar") for o in ("int", "union", "diff", "xor")]
    if prop in ("C01", "C09"):
        # crossing combs: results with a closed form, projected to (polygon count, area) - the region
        # contract and the far-part law at sizes the arrangement oracle cannot reach
        import checks_splay
        wd = os.path.join(vlib.OUT, prop, "big")
        os.makedirs(wd, exist_ok=True)
        path = os.path.join(wd, "stack.ndjson")
        checks_splay.scenario(combs, path)
        res2, sfails, _ = checks_splay.validate_stack(path, os.path.join(wd, "trace"), 1 << 30)
        big_events = vlib.load_sessions(path)
        os.makedirs(os.path.join(vlib.OUT, "replays"), exist_ok=True)
        for (kind, i) in sorted(sfails, key=lambda x: x[1]):
            e = big_events[i - 1]
            p = os.path.join(vlib.OUT, "replays", "%s-%s-%d-%d.json" % (prop, e["scenario"].replace(":", "_"), e["n"], e["stack_kb"]))
            json.dump(e, open(p, "w"))
            log("VIOLATION property=%s replay=%s" % (prop, p))
            log("  %s: scenario %s n=%d exit=%s polys=%d area2=%d popped=%d edges=%d" % (kind, e["scenario"], e["n"], e["exit"], e["polys"], e["area2"], e["popped"], e["size"]))
            nviol += 1
        tot_gen += res2["generated"]
        tot_dist += res2["distinct"]
        log("[%s] crossing-comb scenarios: %d child processes (up to %d input edges, %d result polygons), closed-form result contract: %d failures" % (
            prop, len(big_events), max([e["size"] for e in big_events] + [0]), max([e["polys"] for e in big_events] + [0]), len(sfails)))
    if prop == "C03":
        # structured large inputs in child processes: must return (no abort / panic / budget overrun)
        import checks_splay
        wd = os.path.join(vlib.OUT, prop, "big")
        os.makedirs(wd, exist_ok=True)
        if tier == "quick":
            scs = [("bool:comb:int", 120000, 1024), ("bool:needles:int", 120000, 1024), ("bool:needles:diff", 100000, 1024), ("bool:comb_subject:diff", 20000, 8192), ("bool:steps:union", 100000, 1024), ("bool:steps:xor", 60000, 1024),
                   ("bool:comb:int", 30000, 256), ("bool:needles:int", 30000, 256), ("bool:comb:diff", 30000, 192),
                   ("bool:grid:union", 2500, 8192), ("bool:grid:xor", 2500, 2048), ("bool:stair:int", 40000, 8192), ("bool:stair:union", 20000, 2048),
                   ("bool:hub:union", 30000, 1024), ("bool:hub_right:union", 30000, 1024)]
        else:
            scs = [("bool:comb:int", 500000, 8192), ("bool:comb:diff", 250000, 2048), ("bool:needles:int", 300000, 8192), ("bool:needles:diff", 150000, 2048),
                   ("bool:comb_subject:diff", 200000, 8192), ("bool:comb:union", 100000, 8192), ("bool:steps:union", 250000, 8192), ("bool:steps:diff", 250000, 2048), ("bool:grid:union", 40000, 8192), ("bool:grid:xor", 40000, 2048),
                   ("bool:grid:int", 90000, 8192), ("bool:stair:int", 1000000, 8192), ("bool:stair:union", 1000000, 2048), ("bool:stair:diff", 1000000, 8192),
                   ("bool:hub:union", 300000, 8192), ("bool:hub_right:xor", 100000, 2048)]
        # the same kinds of input in a build WITHOUT optimisation (debug assertions on, the default `cargo build`): one long result
        # contour (stair), long chains of stacked result edges (steps), a vertex of high degree (hub), a long sweep line dropped early (comb)
        k = 1 if tier == "quick" else 5
        scs += [("bool:stair:union", 100000 * k, 2048, "unopt"), ("bool:stair:int", 60000 * k, 1024, "unopt"), ("bool:steps:union", 30000 * k, 1024, "unopt"), ("bool:steps:xor", 20000 * k, 2048, "unopt"),
                ("bool:hub:union", 20000 * k, 1024, "unopt"), ("bool:comb:int", 40000 * k, 512, "unopt"), ("bool:needles:diff", 30000 * k, 1024, "unopt"), ("bool:grid:union", 900 * k, 2048, "unopt")]
        # deep nesting (result contours nested 2n levels: holes inside exteriors inside holes ...), with a closed-form result
        # contract; in the optimised build with overflow checks (dbg), without optimisation (unopt) and in release
        scs += [("bool:nest:union", 300 * k, 1024, "dbg"), ("bool:nest:xor", 400 * k, 2048, "unopt"), ("bool:nest:diff", 300 * k, 8192), ("bool:nest:int", 200 * k, 1024, "dbg")]
        scs += [c for c in combs if c[1] in (24, 100)]
        path = os.path.join(wd, "stack.ndjson")
        checks_splay.scenario(scs, path)
        res2, sfails, _ = checks_splay.validate_stack(path, os.path.join(wd, "trace"), 1 << 30)
        big_events = vlib.load_sessions(path)
        os.makedirs(os.path.join(vlib.OUT, "replays"), exist_ok=True)
        for (kind, i) in sorted(sfails, key=lambda x: x[1]):
            e = big_events[i - 1]
            p = os.path.join(vlib.OUT, "replays", "C03-%s-%d-%d.json" % (e["scenario"].replace(":", "_"), e["n"], e["stack_kb"]))
            json.dump(e, open(p, "w"))
            log("VIOLATION property=C03 replay=%s" % p)
            log("  %s: scenario %s n=%d stack=%dKiB exit=%s popped=%d edges=%d" % (kind, e["scenario"], e["n"], e["stack_kb"], e["exit"], e["popped"], e["size"]))
            nviol += 1
        tot_gen += res2["generated"]
        tot_dist += res2["distinct"]
        log("[C03] large scenarios: %d child processes (up to %d input edges), %d failures" % (len(big_events), max([e["size"] for e in big_events] + [0]), len(sfails)))
    calls, distinct, nontrivial = vlib.session_stats(all_sessions)
    fams = {}
    for s in all_sessions:
        fams[s["family"]] = fams.get(s["family"], 0) + 1
    samples = [vlib.compact_sample(s) for s in (all_sessions[:1] + all_sessions[len(all_sessions) // 2:len(all_sessions) // 2 + 1])]
    cov = {
        "states": tot_dist, "transitions": tot_gen, "traces_validated_against_impl": tot_sessions,
        "samples": samples, "evaluations": calls, "distinct_nontrivial": nontrivial, "distinct_inputs": distinct,
        "rule": "a case is one real library call (operands, operation, trait pairing, float type) inside a recorded session; distinct = distinct canonical hash of operands+call shape; non-trivial = the sweep ran and processed more events than twice the number of input edges, i.e. at least one edge was split at an intersection, touch or overlap",
        "sessions_by_family": fams, "steps": per_step, "known_findings_hit": nknown,
        "exhaustive": False, "large_scenarios": big_events, "undecided_calls": undecided_total,
        "layer_m": [{k: v for k, v in r.items() if k != "labels"} for r in layer_m],
        "layer_m_branch_labels": {k: v for r in layer_m for k, v in r["labels"].items()},
        "spec_drift": sum(r["drift"] for r in layer_m), "abstract_machine": abstract,
    }
    vlib.write_evidence(prop, tier, seed, "model_checking", cov, time.time() - t0, nviol, ASSUME)
    log("[%s] %s: %d calls in %d sessions validated by TLC, %d violations, %d known findings, %.0fs" % (
        prop, tier, calls, len(all_sessions), nviol, nknown, time.time() - t0))
    return 1 if nviol else 0


def replay(prop, path, seed):
    """Re-execute a replay file (a recorded session) against the current tree and validate it."""
    wd = os.path.join(vlib.OUT, prop, "replay")
    os.makedirs(wd, exist_ok=True)
    trace = os.path.join(wd, "trace.ndjson")
    vlib.vh(["rerun", "--file", path, "--sid0", 1], trace)
    steps = plan(prop, "quick")
    laws = set()
    for (_, l, _, _, _) in steps:
        laws |= l
    with open(path) as f:
        rec = json.loads(f.readline())
    if rec.get("violated_law"):
        laws.add(rec["violated_law"])
    res = vlib.validate_ops(trace, laws, "any", wd)
    sessions = vlib.load_sessions(trace)
    nviol, _ = report(prop, [("replay", sessions, res["lawfails"])], [])
    log("[%s] replay of %s: %s" % (prop, path, "violation reproduced" if nviol else "no violation"))
    return 1 if nviol else 0
