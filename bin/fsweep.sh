#!/bin/bash
# seed sweep of the float-witness families on the unchanged tree (snapshot of /repo HEAD)
for s in 11 12 13 14 15 16 17 18 19 20 21 22; do
  echo "== seed $s"
  python3 bin/adhoc.py C01,C02,C03,C04,C12 fwit rot-cx,rot-rect,rot-cxmix,rot-cxabut,rot-cxsub 4000 $s 2>&1 | tail -2
  python3 bin/adhoc.py C01,C02,C03,C04,C12 fwit32 rot-cx,rot-rect,rot-cxmix,rot-cxabut,rot-cxsub 2500 $s 2>&1 | tail -2
  python3 bin/adhoc.py C01,C02,C03,C04,C11,C12 fchain rot-cx,rot-rect,rot-cxabut,rot-cxsub 2000 $s 2>&1 | tail -2
  python3 bin/adhoc.py C01,C02,C04,C05,C06 five hang,cxsplit 1500 $s 2>&1 | tail -2
done
