#!/usr/bin/env python3
"""Author corpus/ulp_frames.ndjson: the ULP-sliver configurations of corpus/ulp.ndjson (and extra random
ones, fixed seed) presented in the other ULP frames: 2001 (-2 + k*2^-52, f64), 2002 (1 + k*2^-23, f32),
2003 (-2 + k*2^-23, f32). Inputs only; `vh rerun` executes them."""
import json, os, random
ROOT = os.path.dirname(os.path.dirname(os.path.abspath(__file__)))
cfgs = {}
for l in open(os.path.join(ROOT, "corpus", "ulp.ndjson")):
    s = json.loads(l)
    tag = s["family"].split("/")[1]
    cfgs.setdefault(tag, (s["events"][0]["mp"], s["events"][1]["mp"]))
rnd = random.Random(20260926)
def tri():
    while True:
        p = [(rnd.randint(0, 4), rnd.randint(0, 8)) for _ in range(3)]
        a2 = (p[1][0]-p[0][0])*(p[2][1]-p[0][1]) - (p[1][1]-p[0][1])*(p[2][0]-p[0][0])
        if a2 == 0:
            continue
        if a2 < 0:
            p[1], p[2] = p[2], p[1]
        return [[[ [x, y, 0] for (x, y) in p + [p[0]] ]]]
for i in range(120):
    cfgs["r%d" % i] = (tri(), tri())
out = os.path.join(ROOT, "corpus", "ulp_frames.ndjson")
n = 0
with open(out, "w") as f:
    for tag, (a, b) in cfgs.items():
        for (k, F) in ((2001, "f64"), (2002, "f32"), (2003, "f32")):
            if tag.startswith("r") and k == 2001 and False:
                continue
            for op in ("int", "union", "diff", "xor"):
                n += 1
                ev = [{"ev": "def", "name": "A", "k": k, "mp": a, "rel": "base"}, {"ev": "def", "name": "B", "k": k, "mp": b, "rel": "base"},
                      {"ev": "call", "res": "R1", "op": op, "x": "A", "y": "B", "px": "m", "py": "m", "F": F, "thr": 0, "outcome": "ok", "msg": "", "popped": 0, "mp": [], "bits": "", "xd": ["", ""], "yd": ["", ""]}]
                f.write(json.dumps({"sid": n, "kind": "corpus", "family": "ulp%d/%s/%s" % (k, tag, op), "seed": 0, "events": ev}, separators=(",", ":")) + "\n")
print(n, "sessions ->", out)
