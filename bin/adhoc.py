#!/usr/bin/env python3
"""bin/adhoc.py <laws,comma> <kind> <family> <stride> [seed]  -- record one enumerated batch and validate it (development aid)"""
import os, sys, time
sys.path.insert(0, os.path.dirname(os.path.abspath(__file__)))
import vlib, checks_ops
laws = set(sys.argv[1].split(","))
kind, fam, stride = sys.argv[2], sys.argv[3], int(sys.argv[4])
seed = int(sys.argv[5]) if len(sys.argv) > 5 else 1
wd = os.path.join(vlib.OUT, "adhoc")
os.makedirs(wd, exist_ok=True)
b = checks_ops.enum(kind, fam, stride) if "en:" in fam else checks_ops.ops(kind, fam, stride)
t = time.time()
trace = checks_ops.record_step("C01", 0, "adhoc", "release", [b], seed, wd)
sessions = vlib.load_sessions(trace)
print("recorded %d sessions in %.1fs" % (len(sessions), time.time() - t))
res = vlib.validate_ops(trace, laws, "any", wd)
print("states %d lawfails %d undecided %d TLC %.1fs" % (res["distinct"], len(res["lawfails"]), len(res["undecided"]), res["seconds"]))
for f in sorted(res["lawfails"])[:10]:
    print(f)
