#!/bin/bash
# usage: seed_run.sh <name> <tier> <PROP>...  -- apply seeded/<name>/patch.diff to /repo, run the checks, undo
name=$1; tier=$2; shift 2
cd /repo && git diff --quiet || { echo "/repo dirty"; exit 2; }
git -C /repo apply /verif/seeded/$name/patch.diff || exit 2
for p in "$@"; do
  ( cd /verif && bin/check $p $tier > /verif/out/seed_${name}_$p.log 2>&1; echo "$name $p exit=$? $(grep -c '^VIOLATION' /verif/out/seed_${name}_$p.log) violations; $(grep -E '^(VIOLATION|TOOL-ERROR|SPEC-DRIFT)' /verif/out/seed_${name}_$p.log | head -2 | tr '\n' ' ')" )
done
git -C /repo checkout -- .
( cd /verif && git checkout -- evidence 2>/dev/null )
