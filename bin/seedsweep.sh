#!/bin/bash
# every quick check under other values of VERIF_SEED, on the tree named by VP_RUN_REPO (development aid for `vp run --with-repo`)
bin/setup > out_setup.log 2>&1 || true
for s in ${SEEDS:-2 3 4 5}; do
  for c in C01 C02 C03 C04 C05 C06 C07 C08 C09 C10 C11 C12 C13 C14 C15 C16 C17 C18; do
    t=$(date +%s); VERIF_SEED=$s bin/check $c quick > sweep_${s}_$c.log 2>&1; echo "seed=$s $c exit=$? $(( $(date +%s)-t ))s viol=$(grep -c '^VIOLATION' sweep_${s}_$c.log) tool=$(grep -c 'TOOL-ERROR' sweep_${s}_$c.log)"
  done
done
