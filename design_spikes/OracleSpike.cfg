SPECIFICATION Spec
INVARIANT C01
CHECK_DEADLOCK FALSE
