SPECIFICATION Spec
CONSTANTS N = 2
 L = 840
 FIXED = TRUE
INVARIANT M_ResultRegion
INVARIANT M_EventBound
INVARIANT M_Transition
CHECK_DEADLOCK FALSE
