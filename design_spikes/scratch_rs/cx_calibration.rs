// scratch calibration 2: subsets of a triangulated lattice (4 triangles per cell), optional integer affine map
use geo_booleanop::boolean::{BooleanOp, Operation};
use geo_types::{Coord, LineString, MultiPolygon, Polygon};
use rand::rngs::StdRng;
use rand::{Rng, SeedableRng};
use std::collections::HashMap;
pub type P = (i64, i64);
pub type Tri = [P; 3];

pub fn complex(k: i64, mode: u32) -> Vec<Tri> {
    // cells of size 2 so the centre is integer
    let mut t = vec![];
    for x in 0..k { for y in 0..k {
        let (a,b,c,d,m) = ((2*x,2*y),(2*x+2,2*y),(2*x+2,2*y+2),(2*x,2*y+2),(2*x+1,2*y+1));
        match mode {
            0 => { t.push([a,b,c]); t.push([a,c,d]); }            // "/" diagonal
            1 => { t.push([a,b,d]); t.push([b,c,d]); }            // "\" diagonal
            2 => { t.push([a,b,m]); t.push([b,c,m]); t.push([c,d,m]); t.push([d,a,m]); }
            _ => { if (x+y)%2==0 { t.push([a,b,c]); t.push([a,c,d]); } else { t.push([a,b,d]); t.push([b,c,d]); } }
        }
    }}
    t
}
fn cross(a:P,b:P)->i64{a.0*b.1-a.1*b.0}
fn dot(a:P,b:P)->i64{a.0*b.0+a.1*b.1}
fn sub(a:P,b:P)->P{(a.0-b.0,a.1-b.1)}
// compare turn angle from d to o in (-pi,pi]; larger = more left
fn ang(d:P,o:P)->f64{ (cross(d,o) as f64).atan2(dot(d,o) as f64) }

fn rings(tris:&[Tri], sel:&[bool])->Vec<Vec<P>>{
    let mut cnt:HashMap<(P,P),i32>=HashMap::new();
    for (i,t) in tris.iter().enumerate(){ if !sel[i]{continue;}
        for j in 0..3{ let (a,b)=(t[j],t[(j+1)%3]); 
            if let Some(c)=cnt.get_mut(&(b,a)){ *c-=1; if *c==0{cnt.remove(&(b,a));} } else { *cnt.entry((a,b)).or_default()+=1; } } }
    let mut out:HashMap<P,Vec<P>>=HashMap::new();
    for ((a,b),c) in &cnt { assert!(*c==1); out.entry(*a).or_default().push(*b); }
    let mut res=vec![];
    loop{
        let start=match out.iter().filter(|(_,v)|!v.is_empty()).map(|(k,_)|*k).min(){Some(s)=>s,None=>break};
        // walk a closed trail choosing the leftmost turn
        let mut path=vec![start];
        let first=out.get_mut(&start).unwrap().pop().unwrap();
        let mut prev=start; let mut cur=first;
        loop{
            if let Some(pos)=path.iter().position(|p|*p==cur){
                res.push(path[pos..].to_vec()); path.truncate(pos+1);
                if pos==0 && out[&cur].is_empty(){break;}
                if pos==0 { // start vertex has more edges: continue trail
                }
            } else { path.push(cur); }
            let v=out.get_mut(&cur).unwrap();
            if v.is_empty(){ assert!(path.len()==1); break; }
            let d=sub(cur,prev);
            let mut bi=0; let mut ba=-10.0;
            for (i,o) in v.iter().enumerate(){ let a=ang(d,sub(*o,cur)); if a>ba{ba=a;bi=i;} }
            let nxt=v.remove(bi); prev=cur; cur=nxt;
        }
    }
    res
}
fn area2(r:&[P])->i64{let n=r.len();(0..n).map(|i|cross(r[i],r[(i+1)%n])).sum()}
fn simplify(r:&[P])->Vec<P>{let n=r.len();(0..n).filter(|&i|cross(sub(r[i],r[(i+n-1)%n]),sub(r[(i+1)%n],r[i]))!=0).map(|i|r[i]).collect()}
fn pir(r:&[(f64,f64)],px:f64,py:f64)->bool{let n=r.len();let mut c=false;for i in 0..n{let(a,b)=(r[i],r[(i+1)%n]);if(a.1>py)!=(b.1>py){let x=a.0+(py-a.1)*(b.0-a.0)/(b.1-a.1);if x>px{c=!c}}}c}
fn fl(r:&[P])->Vec<(f64,f64)>{r.iter().map(|p|(p.0 as f64,p.1 as f64)).collect()}

pub fn to_mp(tris:&[Tri],sel:&[bool],rng:&mut StdRng,simp:bool,m:[i64;4])->MultiPolygon<f64>{
    let mut ext=vec![];let mut holes=vec![];
    for r in rings(tris,sel){ let r=if simp{simplify(&r)}else{r}; if area2(&r)>0{ext.push(r)}else{holes.push(r)} }
    let mut polys:Vec<(Vec<P>,Vec<Vec<P>>)>=ext.into_iter().map(|e|(e,vec![])).collect();
    for h in holes{
        // sample point inside hole: just right of first edge midpoint (hole is on the right of directed edges)
        let (a,b)=(h[0],h[1]); let d=sub(b,a); let l=((d.0*d.0+d.1*d.1) as f64).sqrt();
        let (mx,my)=((a.0+b.0) as f64/2.0 + d.1 as f64/l*0.05,(a.1+b.1) as f64/2.0 - d.0 as f64/l*0.05);
        let mut best:Option<usize>=None;
        for (i,(e,_)) in polys.iter().enumerate(){ if pir(&fl(e),mx,my){ if best.map(|b|area2(&polys[b].0)>area2(e)).unwrap_or(true){best=Some(i)} } }
        polys[best.expect("hole without parent")].1.push(h);
    }
    let ls=|r:&Vec<P>,rng:&mut StdRng|->LineString<f64>{
        let ulp=std::env::var("ULPX").is_ok(); let mut v:Vec<Coord<f64>>=r.iter().map(|p|{let x=(m[0]*p.0+m[1]*p.1) as f64; Coord{x: if ulp {1.0+x*f64::EPSILON} else {x},y:(m[2]*p.0+m[3]*p.1) as f64}}).collect();
        let n=v.len(); v.rotate_left(rng.gen_range(0..n)); if rng.gen_bool(0.5){v.reverse()} v.push(v[0]); LineString(v)};
    MultiPolygon(polys.iter().map(|(e,hs)|Polygon::new(ls(e,rng),hs.iter().map(|h|ls(h,rng)).collect())).collect())
}
fn rp(l:&LineString<f64>)->Vec<(f64,f64)>{l.0.iter().map(|c|(c.x,c.y)).collect()}
fn check(res:&MultiPolygon<f64>,tris:&[Tri],exp:&[bool],m:[i64;4])->(bool,bool){
    let mut eo=true;let mut po=true;
    for (i,t) in tris.iter().enumerate(){
        let cx=(t[0].0+t[1].0+t[2].0) as f64/3.0+0.013; let cy=(t[0].1+t[1].1+t[2].1) as f64/3.0+0.007;
        let (px,py)=(m[0] as f64*cx+m[1] as f64*cy,m[2] as f64*cx+m[3] as f64*cy);
        let mut par=false;let mut inp=0;
        for p in &res.0{ let e=pir(&rp(p.exterior()),px,py); if e{par=!par} let mut inh=false; for h in p.interiors(){ if pir(&rp(h),px,py){par=!par;inh=true} } if e&&!inh{inp+=1} }
        if par!=exp[i]{eo=false} if (inp==1)!=exp[i]||inp>1{po=false}
    }
    (eo,po)
}
fn norm(mp:&MultiPolygon<f64>)->Vec<Vec<Vec<(i64,i64)>>>{
    let nr=|l:&LineString<f64>|->Vec<(i64,i64)>{ let mut v:Vec<(i64,i64)>=l.0.iter().map(|c|((c.x*1024.0) as i64,(c.y*1024.0) as i64)).collect(); if v.len()>1 && v[0]==v[v.len()-1]{v.pop();} if v.is_empty(){return v;} let m=(0..v.len()).min_by_key(|&i|v[i]).unwrap(); v.rotate_left(m); v};
    let mut ps:Vec<Vec<Vec<(i64,i64)>>>=mp.0.iter().map(|p|{let mut hs:Vec<_>=p.interiors().iter().map(|h|nr(h)).collect(); hs.sort(); let mut r=vec![nr(p.exterior())]; r.extend(hs); r}).collect(); ps.sort(); ps}
fn main(){
    let a:Vec<String>=std::env::args().collect();
    let k:i64=a[1].parse().unwrap(); let n:u64=a[2].parse().unwrap(); let dens:f64=a[3].parse().unwrap(); let simp=a[4]=="1"; let mode:u32=a[5].parse().unwrap();
    let m:[i64;4]=if a.len()>9{[a[6].parse().unwrap(),a[7].parse().unwrap(),a[8].parse().unwrap(),a[9].parse().unwrap()]}else{[1,0,0,1]};
    let seed0:u64=a.get(10).map(|s|s.parse().unwrap()).unwrap_or(0);
    let tris=complex(k,mode);
    let ops=[Operation::Intersection,Operation::Union,Operation::Difference,Operation::Xor];
    let mut stats:HashMap<String,u64>=HashMap::new(); let mut shown:HashMap<&'static str,u64>=HashMap::new();
    for seed in seed0..seed0+n{
        let mut rng=StdRng::seed_from_u64(seed);
        let sa:Vec<bool>=(0..tris.len()).map(|_|rng.gen_bool(dens)).collect();
        let sb:Vec<bool>=(0..tris.len()).map(|_|rng.gen_bool(dens)).collect();
        let pa=to_mp(&tris,&sa,&mut rng,simp,m); let pb=to_mp(&tris,&sb,&mut rng,simp,m);
        for op in ops{
            let exp:Vec<bool>=(0..tris.len()).map(|i|match op{Operation::Intersection=>sa[i]&&sb[i],Operation::Union=>sa[i]||sb[i],Operation::Difference=>sa[i]&&!sb[i],Operation::Xor=>sa[i]!=sb[i]}).collect();
            let (a2,b2)=(pa.clone(),pb.clone());
            let (tx,rx)=std::sync::mpsc::channel();
            std::thread::spawn(move||{let r=std::panic::catch_unwind(||a2.boolean(&b2,op));let _=tx.send(r);});
            let tag:&'static str=match rx.recv_timeout(std::time::Duration::from_secs(5)){
                Err(_)=>"HANG",Ok(Err(_))=>"PANIC",
                Ok(Ok(res))=>{let(eo,po)=check(&res,&tris,&exp,m); if !eo{"REGION"}else if !po{"NESTING"}else{
                    let mut t="ok";
                    if op!=Operation::Difference { let sw=pb.boolean(&pa,op); if norm(&sw)!=norm(&res){t="SWAPRINGS";} }
                    let aa=pa.boolean(&pa,op); let saa:Vec<bool>=(0..tris.len()).map(|i|match op{Operation::Intersection|Operation::Union=>sa[i],_=>false}).collect();
                    let (e2,p2)=check(&aa,&tris,&saa,m); if !e2||!p2 {t="SELFOP";}
                    t}}};
            *stats.entry(format!("{}/{:?}",tag,op)).or_default()+=1;
            if tag!="ok"{ let c=shown.entry(tag).or_default(); if *c<2{*c+=1; println!("{} seed={} op={:?}\n A={:?}\n B={:?}",tag,seed,op,pa,pb);} if tag=="HANG"{println!("stats {:?}",stats);std::process::exit(3);} }
        }
    }
    let mut s:Vec<_>=stats.into_iter().collect(); s.sort(); println!("stats {:?}",s);
}
