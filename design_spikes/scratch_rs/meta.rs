use geo_booleanop::boolean::{BooleanOp, Operation};
use geo_types::{Coord, LineString, MultiPolygon, Polygon};
use rand::rngs::StdRng; use rand::{Rng, SeedableRng};
#[path="../main.rs"] #[allow(dead_code)] mod m;
// normalise: drop closing + repeated vertices, rotate to min, fix direction by making signed area positive
fn nr(l:&LineString<f64>)->Vec<(u64,u64)>{ let mut v:Vec<(f64,f64)>=l.0.iter().map(|c|(c.x,c.y)).collect(); v.dedup(); if v.len()>1&&v[0]==v[v.len()-1]{v.pop();}
    if v.is_empty(){return vec![];} let n=v.len(); let a:f64=(0..n).map(|i|v[i].0*v[(i+1)%n].1-v[i].1*v[(i+1)%n].0).sum(); if a<0.0{v.reverse();}
    let m=(0..n).min_by(|&i,&j|v[i].partial_cmp(&v[j]).unwrap()).unwrap(); v.rotate_left(m); v.iter().map(|p|(p.0.to_bits(),p.1.to_bits())).collect() }
fn norm(mp:&MultiPolygon<f64>)->Vec<Vec<Vec<(u64,u64)>>>{ let mut ps:Vec<_>=mp.0.iter().map(|p|{let mut hs:Vec<_>=p.interiors().iter().map(nr).collect(); hs.sort(); let mut r=vec![nr(p.exterior())]; r.extend(hs); r}).collect(); ps.sort(); ps }
fn scale(mp:&MultiPolygon<f64>,f:f64)->MultiPolygon<f64>{ MultiPolygon(mp.0.iter().map(|p|Polygon::new(LineString(p.exterior().0.iter().map(|c|Coord{x:c.x*f,y:c.y*f}).collect()),p.interiors().iter().map(|h|LineString(h.0.iter().map(|c|Coord{x:c.x*f,y:c.y*f}).collect())).collect())).collect()) }
fn dup(mp:&MultiPolygon<f64>,rng:&mut StdRng)->MultiPolygon<f64>{ let d=|l:&LineString<f64>,rng:&mut StdRng|{let mut v=vec![]; for c in &l.0{v.push(*c); if rng.gen_bool(0.3){v.push(*c);}} LineString(v)}; let mut ps:Vec<Polygon<f64>>=mp.0.iter().map(|p|Polygon::new(d(p.exterior(),rng),p.interiors().iter().map(|h|d(h,rng)).collect())).collect(); let n=ps.len(); if n>1{ps.rotate_left(rng.gen_range(0..n));} MultiPolygon(ps) }
fn main(){
    let a:Vec<String>=std::env::args().collect(); let k:i64=a[1].parse().unwrap(); let n:u64=a[2].parse().unwrap(); let mode:u32=a[3].parse().unwrap();
    let mat:[i64;4]=[a[4].parse().unwrap(),a[5].parse().unwrap(),a[6].parse().unwrap(),a[7].parse().unwrap()];
    let tris=m::complex(k,mode); let ops=[Operation::Intersection,Operation::Union,Operation::Difference,Operation::Xor];
    let (mut rep_bad,mut sc_bad,mut tot)=(0,0,0);
    for seed in 0..n{ let mut rng=StdRng::seed_from_u64(seed);
        let sa:Vec<bool>=(0..tris.len()).map(|_|rng.gen_bool(0.5)).collect(); let sb:Vec<bool>=(0..tris.len()).map(|_|rng.gen_bool(0.5)).collect();
        let pa=m::to_mp(&tris,&sa,&mut rng,true,mat); let pb=m::to_mp(&tris,&sb,&mut rng,true,mat);
        let pa2=dup(&m::to_mp(&tris,&sa,&mut rng,true,mat),&mut rng); let pb2=dup(&m::to_mp(&tris,&sb,&mut rng,true,mat),&mut rng);
        for op in ops{ tot+=1; let r=pa.boolean(&pb,op); let r2=pa2.boolean(&pb2,op);
            if norm(&r)!=norm(&r2){rep_bad+=1; if rep_bad<3{println!("REP seed={} op={:?}\n r ={:?}\n r2={:?}",seed,op,r,r2);}}
            for kx in [-30i32,7,40]{ let f=2f64.powi(kx); let rs=scale(&pa,f).boolean(&scale(&pb,f),op); if norm(&scale(&rs,1.0/f))!=norm(&r) || scale(&rs,1.0/f)!=r {sc_bad+=1; if sc_bad<3{println!("SCALE seed={} op={:?} k={}",seed,op,kx);}} } } }
    println!("total={} representation_mismatch={} scaling_mismatch={}",tot,rep_bad,sc_bad);
}
