// dump run records (A,B,op,result) as ndjson for the oracle spike
use geo_booleanop::boolean::{BooleanOp, Operation};
use geo_types::{Coord, LineString, MultiPolygon, Polygon};
use rand::rngs::StdRng; use rand::{Rng, SeedableRng};
#[path="../main.rs"] #[allow(dead_code)] mod m;
fn ring(l:&LineString<f64>)->String{ format!("[{}]", l.0.iter().map(|c|{assert!(c.x==c.x.round()&&c.y==c.y.round());format!("[{},{}]",c.x as i64,c.y as i64)}).collect::<Vec<_>>().join(",")) }
fn mp(p:&MultiPolygon<f64>)->String{ format!("[{}]", p.0.iter().map(|q|{ let mut rs=vec![ring(q.exterior())]; rs.extend(q.interiors().iter().map(ring)); format!("[{}]",rs.join(","))}).collect::<Vec<_>>().join(",")) }
fn main(){
    let a:Vec<String>=std::env::args().collect();
    let k:i64=a[1].parse().unwrap(); let n:u64=a[2].parse().unwrap(); let mode:u32=a[3].parse().unwrap(); let simp=a[4]=="1";
    let tris=m::complex(k,mode);
    let ops=[("int",Operation::Intersection),("union",Operation::Union),("diff",Operation::Difference),("xor",Operation::Xor)];
    let mut id=0;
    for seed in 0..n{ let mut rng=StdRng::seed_from_u64(seed);
        let sa:Vec<bool>=(0..tris.len()).map(|_|rng.gen_bool(0.5)).collect(); let sb:Vec<bool>=(0..tris.len()).map(|_|rng.gen_bool(0.5)).collect();
        let pa=m::to_mp(&tris,&sa,&mut rng,simp,[1,0,0,1]); let pb=m::to_mp(&tris,&sb,&mut rng,simp,[1,0,0,1]);
        for (name,op) in ops{ let r=pa.boolean(&pb,op); id+=1;
            println!("{{\"id\":{},\"seed\":{},\"op\":\"{}\",\"A\":{},\"B\":{},\"R\":{}}}",id,seed,name,mp(&pa),mp(&pb),mp(&r)); } }
    let _=(Coord{x:0.0,y:0.0}, Polygon::new(LineString::<f64>(vec![]),vec![]));
}
