use geo_booleanop::splay::SplayTree;
// measure stack high-water mark of a closure on a painted thread stack
fn measure<F:FnOnce()+Send+'static>(stack:usize,f:F)->usize{
    std::thread::Builder::new().stack_size(stack).spawn(move||{
        let marker=0u8; let top=&marker as *const u8 as usize;
        let reserve=16*1024; // keep clear of our own frames
        let lo=top-(stack-64*1024); let hi=top-reserve;
        unsafe{ let mut p=lo; while p<hi { std::ptr::write_volatile(p as *mut u64,0xA5A5_A5A5_A5A5_A5A5); p+=8; } }
        f();
        let mut p=lo; unsafe{ while p<hi && std::ptr::read_volatile(p as *const u64)==0xA5A5_A5A5_A5A5_A5A5 { p+=8; } }
        top-p
    }).unwrap().join().unwrap()
}
fn main(){
    for n in [1000usize,10000,50000]{
        let build=move||{ let mut t=SplayTree::new(|a:&u32,b:&u32|a.cmp(b)); for i in 0..n as u32{t.insert(i,());} t };
        let h1=measure(32<<20,move||{ let t=build(); std::mem::forget(t); });
        let h2=measure(32<<20,move||{ let t=build(); drop(t); });
        let h3=measure(32<<20,move||{ let t=build(); let c=t.into_iter().count(); assert_eq!(c,n); });
        println!("n={} build_only_hwm={} build+drop_hwm={} build+iterall_hwm={}",n,h1,h2,h3);
    }
}
