use geo_booleanop::splay::SplayTree;
fn main(){
    let n:usize=std::env::args().nth(1).unwrap().parse().unwrap();
    let mode=std::env::args().nth(2).unwrap();
    let mut t=SplayTree::new(|a:&u32,b:&u32|a.cmp(b));
    for i in 0..n as u32 { t.insert(i,()); }
    println!("built {}",t.len());
    match mode.as_str(){
        "drop"=>drop(t),
        "clear"=>t.clear(),
        "iter"=>{ let mut it=t.into_iter(); it.next(); drop(it); }
        "iterall"=>{ let c=t.into_iter().count(); println!("{}",c); }
        "find"=>{ println!("{:?}", t.find_key(&0)); println!("{:?}", t.next(&5).map(|x|*x.0)); std::mem::forget(t); }
        _=>{}
    }
    println!("done");
}
