// record random histories of the real SplayTree with the Debug-rendered shape after every call
use geo_booleanop::splay::SplayTree;
use rand::rngs::StdRng; use rand::{Rng, SeedableRng};
// parse "Some(Node { key: 1, value: 7, left: None, right: Some(Node {...}) })" into nested [k,v,l,r] / []
fn parse(s:&str)->(String,&str){
    let s=s.trim_start();
    if let Some(rest)=s.strip_prefix("None"){ return ("[]".into(),rest); }
    let rest=s.strip_prefix("Some(Node { key: ").expect(s);
    let i=rest.find(',').unwrap(); let k=&rest[..i]; let rest=rest[i..].strip_prefix(", value: ").unwrap();
    let i=rest.find(',').unwrap(); let v=&rest[..i]; let rest=rest[i..].strip_prefix(", left: ").unwrap();
    let (l,rest)=parse(rest); let rest=rest.strip_prefix(", right: ").unwrap(); let (r,rest)=parse(rest);
    let rest=rest.strip_prefix(" })").unwrap(); (format!("[{},{},{},{}]",k,v,l,r),rest)
}
fn shape<C:Fn(&i32,&i32)->std::cmp::Ordering>(t:&SplayTree<i32,i32,C>)->String{ parse(&format!("{:?}",t)).0 }
fn main(){
    let runs:u64=std::env::args().nth(1).unwrap().parse().unwrap(); let len:usize=std::env::args().nth(2).unwrap().parse().unwrap(); let keys:i32=std::env::args().nth(3).unwrap().parse().unwrap();
    for seed in 0..runs{ let mut rng=StdRng::seed_from_u64(seed); let mut t=SplayTree::new(|a:&i32,b:&i32|a.cmp(b)); let mut ev=vec![]; let mut vc=0;
        for _ in 0..len{ let k=rng.gen_range(0..=keys+1); let o=rng.gen_range(0..8);
            let (name,ret)=match o{
                0|1=>{vc+=1; ("insert",t.insert(k,vc).map(|v|v.to_string()).unwrap_or("-1".into()))}
                2=>("remove",t.remove(&k).map(|v|v.to_string()).unwrap_or("-1".into())),
                3=>("get",t.get(&k).map(|v|v.to_string()).unwrap_or("-1".into())),
                4=>("next",t.next(&k).map(|kv|kv.0.to_string()).unwrap_or("-1".into())),
                5=>("prev",t.prev(&k).map(|kv|kv.0.to_string()).unwrap_or("-1".into())),
                6=>("min",t.min().map(|v|v.to_string()).unwrap_or("-1".into())),
                _=>("max",t.max().map(|v|v.to_string()).unwrap_or("-1".into())),
            };
            ev.push(format!("{{\"op\":\"{}\",\"k\":{},\"v\":{},\"ret\":{},\"len\":{},\"shape\":{}}}",name,k,vc,ret,t.len(),shape(&t)));
        }
        println!("{{\"id\":{},\"events\":[{}]}}",seed,ev.join(","));
    }
}
