use geo_booleanop::boolean::{BooleanOp, Operation};
use geo_types::{Coord, LineString, MultiPolygon, Polygon};
use rand::rngs::StdRng; use rand::{Rng, SeedableRng};
fn main(){
    let n:u64=std::env::args().nth(1).unwrap().parse().unwrap(); let kx:i64=std::env::args().nth(2).unwrap().parse().unwrap(); let ky:i64=std::env::args().nth(3).unwrap().parse().unwrap();
    let ops=[Operation::Intersection,Operation::Union,Operation::Difference,Operation::Xor];
    let (mut hang,mut pan,mut tot)=(0u64,0u64,0u64);
    for seed in 0..n{ let mut rng=StdRng::seed_from_u64(seed);
        let mut tri=|rng:&mut StdRng|->Option<MultiPolygon<f64>>{ let p:Vec<(i64,i64)>=(0..3).map(|_|(rng.gen_range(0..=kx),rng.gen_range(0..=ky))).collect();
            let a=(p[1].0-p[0].0)*(p[2].1-p[0].1)-(p[1].1-p[0].1)*(p[2].0-p[0].0); if a==0{return None;}
            let c=|q:(i64,i64)|Coord{x:1.0+q.0 as f64*f64::EPSILON,y:q.1 as f64};
            Some(MultiPolygon(vec![Polygon::new(LineString(vec![c(p[0]),c(p[1]),c(p[2]),c(p[0])]),vec![])]))};
        let (a,b)=match (tri(&mut rng),tri(&mut rng)){(Some(a),Some(b))=>(a,b),_=>continue};
        for op in ops{ tot+=1; let (a2,b2)=(a.clone(),b.clone()); let (tx,rx)=std::sync::mpsc::channel();
            std::thread::spawn(move||{let r=std::panic::catch_unwind(||a2.boolean(&b2,op)); let _=tx.send(r.is_ok());});
            match rx.recv_timeout(std::time::Duration::from_secs(2)){
                Err(_)=>{hang+=1; println!("HANG seed={} op={:?}\n A={:?}\n B={:?}",seed,op,a,b); if hang>=2{println!("tot={} hang={} panic={}",tot,hang,pan); std::process::exit(0);} }
                Ok(false)=>{pan+=1; if pan<=2{println!("PANIC seed={} op={:?}\n A={:?}\n B={:?}",seed,op,a,b);} }
                Ok(true)=>{} } } }
    println!("tot={} hang={} panic={}",tot,hang,pan);
}
