---- MODULE OracleSpike ----
EXTENDS Integers, Sequences, FiniteSets, TLC, Json, IOUtils, SequencesExt, FiniteSetsExt
Runs == ndJsonDeserialize(IOEnv.TRACEFILE)

Lex(a,b) == a[1] < b[1] \/ (a[1] = b[1] /\ a[2] < b[2])
Norm(e) == IF Lex(e[1],e[2]) THEN e ELSE <<e[2],e[1]>>
Orient(a,b,c) == (b[1]-a[1])*(c[2]-a[2]) - (b[2]-a[2])*(c[1]-a[1])
Cross(u,v) == u[1]*v[2] - u[2]*v[1]
Sub(a,b) == <<a[1]-b[1], a[2]-b[2]>>
Mn(a,b) == IF a < b THEN a ELSE b
Mx(a,b) == IF a > b THEN a ELSE b
InBox(p,e) == /\ Mn(e[1][1],e[2][1]) <= p[1] /\ p[1] <= Mx(e[1][1],e[2][1])
              /\ Mn(e[1][2],e[2][2]) <= p[2] /\ p[2] <= Mx(e[1][2],e[2][2])
OnSeg(p,e) == Orient(e[1],e[2],p) = 0 /\ InBox(p,e)
T(p) == <<p[2],p[1]>>
TE(e) == Norm(<<T(e[1]),T(e[2])>>)

\* edges of a multipolygon as a set of records with identity (bag semantics)
EdgeRecs(mp) == UNION { UNION { { [e |-> Norm(<<mp[i][j][k], mp[i][j][k+1]>>), id |-> <<i,j,k>>] :
                   k \in {k \in 1..(Len(mp[i][j])-1) : mp[i][j][k] # mp[i][j][k+1]} } : j \in 1..Len(mp[i]) } : i \in 1..Len(mp) }

\* proper/improper intersection point of two non-parallel segments, or {} 
XPts(e,f) == LET va == Sub(e[2],e[1])  vb == Sub(f[2],f[1])  ee == Sub(f[1],e[1])
                 k == Cross(va,vb)  sN == Cross(ee,vb)  tN == Cross(ee,va)
             IN IF k = 0 THEN {}
                ELSE IF (k > 0 /\ (sN < 0 \/ sN > k \/ tN < 0 \/ tN > k)) \/ (k < 0 /\ (sN > 0 \/ sN < k \/ tN > 0 \/ tN < k)) THEN {}
                ELSE LET sg == IF k < 0 THEN -1 ELSE 1  ka == sg*k  xn == sg*sN*va[1]  yn == sg*sN*va[2]
                     IN IF xn % ka # 0 \/ yn % ka # 0 THEN Assert(FALSE, <<"domain error: non-integral intersection", e, f>>)
                        ELSE { <<e[1][1] + xn \div ka, e[1][2] + yn \div ka>> }

\* is doubled point m2 strictly above non-vertical normalized edge e, within half-open x-range
BelowNV(e, m2) == /\ 2*e[1][1] <= m2[1] /\ m2[1] < 2*e[2][1]
                  /\ (e[2][1]-e[1][1])*(m2[2]-2*e[1][2]) - (e[2][2]-e[1][2])*(m2[1]-2*e[1][1]) > 0
InOp(op,a,b) == CASE op = "int" -> a /\ b [] op = "union" -> a \/ b [] op = "diff" -> a /\ ~b [] op = "xor" -> a # b

Check(run) ==
  LET EA == EdgeRecs(run.A)  EB == EdgeRecs(run.B)  ER == EdgeRecs(run.R)
      SA == {x.e : x \in EA} SB == {x.e : x \in EB}
      E  == SA \cup SB
      V  == UNION {{e[1],e[2]} : e \in E} \cup UNION {XPts(p[1],p[2]) : p \in {q \in E \X E : Lex(q[1][1], q[2][1]) }}
      Chain(e) == LET s == SetToSortSeq({p \in V : OnSeg(p,e)}, Lex) IN { <<s[i],s[i+1]>> : i \in 1..(Len(s)-1) }
      Atoms == UNION { Chain(e) : e \in E }
      Par(X, s) == \* <<below, above>> membership of operand X (set of edge records) at atom s
         LET vert == s[1][1] = s[2][1]
             m2 == IF vert THEN T(<<s[1][1]+s[2][1], s[1][2]+s[2][2]>>) ELSE <<s[1][1]+s[2][1], s[1][2]+s[2][2]>>
             ss == IF vert THEN TE(s) ELSE s
             b == Cardinality({x \in X : LET f == IF vert THEN TE(x.e) ELSE x.e IN f[1][1] # f[2][1] /\ BelowNV(f, m2)}) % 2 = 1
             c == Cardinality({x \in X : OnSeg(s[1], x.e) /\ OnSeg(s[2], x.e)}) % 2 = 1
         IN <<b, b # c>>
      TrueB == { s \in Atoms : LET pa == Par(EA,s) pb == Par(EB,s) IN InOp(run.op, pa[1], pb[1]) # InOp(run.op, pa[2], pb[2]) }
      RA == UNION { { [a |-> at, id |-> x.id] : at \in Chain(x.e) } : x \in ER }
      EndsOK == \A x \in ER : x.e[1] \in V /\ x.e[2] \in V
  IN /\ EndsOK
     /\ {y.a : y \in RA} = TrueB
     /\ Cardinality(RA) = Cardinality(TrueB)

VARIABLES r, done
Init == r \in 1..Len(Runs) /\ done = FALSE
Next == ~done /\ done' = TRUE /\ r' = r
Spec == Init /\ [][Next]_<<r,done>>
C01 == done => Check(Runs[r])
====
