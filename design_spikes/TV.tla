---- MODULE TV ----
EXTENDS Integers, Sequences, TLC, Json, IOUtils
Runs == ndJsonDeserialize(IOEnv.TRACEFILE)
VARIABLES r, l, top
vars == <<r,l,top>>
Init == r \in 1..Len(Runs) /\ l = 1 /\ top = 0
Ev == Runs[r].events[l]
Push == /\ l <= Len(Runs[r].events) /\ Ev.ev = "push" /\ Ev.v = top + 1 /\ Ev.pt[2] = 2*Ev.v
        /\ top' = Ev.v /\ l' = l+1 /\ r' = r
Done == l > Len(Runs[r].events) /\ top = Runs[r].n /\ UNCHANGED vars
Next == Push \/ Done
Spec == Init /\ [][Next]_vars
Inv == top >= 0
====
