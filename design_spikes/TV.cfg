SPECIFICATION Spec
INVARIANT Inv
CHECK_DEADLOCK TRUE
