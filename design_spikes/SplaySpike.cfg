SPECIFICATION Spec
INVARIANT BST
INVARIANT C17_Contract
INVARIANT M_NoDrift
CHECK_DEADLOCK TRUE
