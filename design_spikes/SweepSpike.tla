---- MODULE SweepSpike ----
\* Time-boxed spike of Layer M: exact-arithmetic transcription of fill_queue + subdivide
\* (no connect_edges), checked against the parity oracle. Not framework code.
EXTENDS Integers, Sequences, FiniteSets, TLC, SequencesExt, FiniteSetsExt
CONSTANTS N, L, FIXED      \* lattice 0..N scaled by L; FIXED = TRUE applies candidate repairs F1/F2

Lex(a,b) == a[1] < b[1] \/ (a[1] = b[1] /\ a[2] < b[2])
Norm(e) == IF Lex(e[1],e[2]) THEN e ELSE <<e[2],e[1]>>
Orient(a,b,c) == (b[1]-a[1])*(c[2]-a[2]) - (b[2]-a[2])*(c[1]-a[1])
Cross(u,v) == u[1]*v[2] - u[2]*v[1]
Dot(u,v) == u[1]*v[1] + u[2]*v[2]
Sub(a,b) == <<a[1]-b[1], a[2]-b[2]>>
Mn(a,b) == IF a < b THEN a ELSE b
Mx(a,b) == IF a > b THEN a ELSE b
Abs(x) == IF x < 0 THEN -x ELSE x
RECURSIVE Gcd(_,_)
Gcd(a,b) == IF b = 0 THEN a ELSE Gcd(b, a % b)
InBox(p,e) == /\ Mn(e[1][1],e[2][1]) <= p[1] /\ p[1] <= Mx(e[1][1],e[2][1])
              /\ Mn(e[1][2],e[2][2]) <= p[2] /\ p[2] <= Mx(e[1][2],e[2][2])
OnSeg(p,e) == Orient(e[1],e[2],p) = 0 /\ InBox(p,e)
T(p) == <<p[2],p[1]>>
TE(e) == Norm(<<T(e[1]),T(e[2])>>)

\* a1 + (sN/k)*va with exact division (domain error otherwise)
Along(a1, va, sN, k) ==
  LET sg == IF k < 0 THEN -1 ELSE 1  g == Gcd(Abs(sN), Abs(k))
      n == (sg*sN) \div (IF g = 0 THEN 1 ELSE g)   d == (sg*k) \div (IF g = 0 THEN 1 ELSE g)
  IN IF (n*va[1]) % d # 0 \/ (n*va[2]) % d # 0 THEN Assert(FALSE, <<"domain error", a1, va, sN, k>>)
     ELSE <<a1[1] + (n*va[1]) \div d, a1[2] + (n*va[2]) \div d>>

\* ---- segment_intersection.rs::intersection, exact ----
Intersection(a1,a2,b1,b2) ==
  LET boxOK == /\ Mx(Mn(a1[1],a2[1]), Mn(b1[1],b2[1])) <= Mn(Mx(a1[1],a2[1]), Mx(b1[1],b2[1]))
               /\ Mx(Mn(a1[2],a2[2]), Mn(b1[2],b2[2])) <= Mn(Mx(a1[2],a2[2]), Mx(b1[2],b2[2]))
      va == Sub(a2,a1) vb == Sub(b2,b1) e == Sub(b1,a1)
      k == Cross(va,vb)
      none == [k |-> "none"]
  IN IF ~boxOK THEN none
     ELSE IF k # 0 THEN
        LET sN == Cross(e,vb) tN == Cross(e,va)
            out(x) == IF k > 0 THEN x < 0 \/ x > k ELSE x > 0 \/ x < k
        IN IF out(sN) \/ out(tN) THEN none ELSE [k |-> "point", p |-> Along(a1, va, sN, k)]
     ELSE IF Cross(e,va) # 0 THEN none
     ELSE LET den == Dot(va,va) saN == Dot(va,e) sbN == saN + Dot(va,vb)
              smin == Mn(saN,sbN) smax == Mx(saN,sbN)
          IN IF smin <= den /\ smax >= 0 THEN
                IF smin = den THEN [k |-> "point", p |-> a2]
                ELSE IF smax = 0 THEN [k |-> "point", p |-> a1]
                ELSE [k |-> "overlap"]
             ELSE none

\* ---- events ----
Ev(p, left, other, subj, cid) == [p |-> p, left |-> left, other |-> other, subj |-> subj, cid |-> cid,
                                   et |-> "N", io |-> FALSE, oio |-> FALSE, rt |-> 0, pir |-> 0]
IsBelow(E, a, p) == IF E[a].left THEN Orient(E[a].p, E[E[a].other].p, p) > 0
                    ELSE Orient(E[E[a].other].p, E[a].p, p) > 0
IsVertical(E, a) == E[a].p[1] = E[E[a].other].p[1]
\* a.is_before(b)  (sweep_event.rs Ord, inverted)
EvBefore(E, a, b) ==
  LET p1 == E[a].p p2 == E[b].p IN
  IF p1[1] # p2[1] THEN p1[1] < p2[1]
  ELSE IF p1[2] # p2[2] THEN p1[2] < p2[2]
  ELSE IF E[a].left # E[b].left THEN ~E[a].left
  ELSE IF Orient(p1, E[E[a].other].p, E[E[b].other].p) # 0 THEN IsBelow(E, a, E[E[b].other].p)
  ELSE ~(~E[a].subj /\ E[b].subj)

\* ---- compare_segments.rs ----
SegCmp(E, a, b) ==
  IF a = b THEN "E" ELSE
  LET aFirst == EvBefore(E, a, b)
      old == IF aFirst THEN a ELSE b   new == IF aFirst THEN b ELSE a
      res(c) == IF aFirst THEN (IF c THEN "L" ELSE "G") ELSE (IF c THEN "G" ELSE "L")
      oldP == E[old].p oldR == E[E[old].other].p newP == E[new].p newR == E[E[new].other].p
      saL == Orient(oldP, oldR, newP)  saR == Orient(oldP, oldR, newR)
      coll == IF E[old].subj = E[new].subj
              THEN (IF oldP = newP THEN res(E[old].cid < E[new].cid) ELSE res(TRUE))
              ELSE res(E[old].subj)
  IN IF saL # 0 \/ saR # 0 THEN
        IF oldP = newP THEN res(IsBelow(E, old, newR))
        ELSE IF oldP[1] = newP[1] THEN res(oldP[2] < newP[2])
        ELSE IF (saL > 0) = (saR > 0) THEN res(saL > 0)
        ELSE IF saL = 0 THEN res(saR > 0)
        ELSE LET inter == Intersection(oldP, oldR, newP, newR) IN
             IF inter.k = "none" THEN res(saL > 0)
             ELSE IF inter.k = "point" THEN (IF inter.p = newP THEN res(saR > 0) ELSE res(saL > 0))
             ELSE coll
     ELSE coll

\* ---- divide_segment.rs ---- returns [ev, q]
Divide(E, Q, sl, p) ==
  LET sr == E[sl].other
      n == Len(E)
      r == Ev(p, FALSE, sl, E[sl].subj, E[sl].cid)
      l == Ev(p, TRUE, sr, E[sl].subj, E[sl].cid)
      E1 == E \o <<r, l>>                       \* ids n+1 = r, n+2 = l
      swap == ~EvBefore(E1, n+2, sr)            \* corner case 2
      E2 == IF swap THEN [E1 EXCEPT ![sr].left = TRUE, ![n+2].left = FALSE] ELSE E1
      E3 == [E2 EXCEPT ![sl].other = n+1, ![sr].other = n+2]
  IN [ev |-> E3, q |-> Q \cup {n+1, n+2}]

\* ---- possible_intersection.rs ---- returns [ev, q, code]
PI(E, Q, s1, s2) ==
  LET o1 == E[s1].other  o2 == E[s2].other
      inter == Intersection(E[s1].p, E[o1].p, E[s2].p, E[o2].p)
      R(ev, q, c) == [ev |-> ev, q |-> q, code |-> c]
  IN IF inter.k = "none" THEN R(E, Q, 0)
     ELSE IF inter.k = "point" THEN
        IF E[s1].p = E[s2].p \/ E[o1].p = E[o2].p THEN R(E, Q, 0)
        ELSE LET D1 == IF E[s1].p # inter.p /\ E[o1].p # inter.p THEN Divide(E, Q, s1, inter.p) ELSE [ev |-> E, q |-> Q]
                 D2 == IF E[s2].p # inter.p /\ E[o2].p # inter.p THEN Divide(D1.ev, D1.q, s2, inter.p) ELSE D1
             IN R(D2.ev, D2.q, 1)
     ELSE IF E[s1].subj = E[s2].subj THEN R(E, Q, 0)
     ELSE
       LET leftCo == E[s1].p = E[s2].p
           rightCo == E[o1].p = E[o2].p
           evL == IF leftCo THEN <<>> ELSE IF ~EvBefore(E, s1, s2) THEN << <<s2,o2>>, <<s1,o1>> >> ELSE << <<s1,o1>>, <<s2,o2>> >>
           evR == IF rightCo THEN <<>> ELSE IF ~EvBefore(E, o1, o2) THEN << <<o2,s2>>, <<o1,s1>> >> ELSE << <<o1,s1>>, <<o2,s2>> >>
           evs == evL \o evR
       IN IF leftCo THEN
             LET E1 == [E EXCEPT ![s2].et = "NC", ![s1].et = IF E[s1].io = E[s2].io THEN "ST" ELSE "DT"]
                 D == IF ~rightCo THEN Divide(E1, Q, evs[2][2], E1[evs[1][1]].p) ELSE [ev |-> E1, q |-> Q]
             IN R(D.ev, D.q, 2)
          ELSE IF rightCo THEN
             LET D == Divide(E, Q, evs[1][1], E[evs[2][1]].p) IN R(D.ev, D.q, 3)
          ELSE IF evs[1][1] # evs[4][2] THEN
             LET D1 == Divide(E, Q, evs[1][1], E[evs[2][1]].p)
                 D2 == Divide(D1.ev, D1.q, evs[2][1], E[evs[3][1]].p)
             IN R(D2.ev, D2.q, 3)
          ELSE
             LET D1 == Divide(E, Q, evs[1][1], E[evs[2][1]].p)
                 D2 == Divide(D1.ev, D1.q, D1.ev[evs[4][1]].other, E[evs[3][1]].p)
             IN R(D2.ev, D2.q, 3)

\* ---- compute_fields.rs ----
InRes(e, op) == CASE e.et = "N" -> (CASE op = "int" -> ~e.oio [] op = "union" -> e.oio
                                       [] op = "diff" -> (e.subj /\ e.oio) \/ (~e.subj /\ ~e.oio) [] op = "xor" -> TRUE)
                  [] e.et = "ST" -> op \in {"int","union"}
                  [] e.et = "DT" -> op = "diff"
                  [] e.et = "NC" -> FALSE
Trans(e, op) == LET thisIn == ~e.io
                    thatIn == IF FIXED /\ e.et \in {"ST","DT"} THEN e.oio ELSE ~e.oio
                    isIn == CASE op = "int" -> thisIn /\ thatIn [] op = "union" -> thisIn \/ thatIn
                              [] op = "xor" -> thisIn # thatIn
                              [] op = "diff" -> IF e.subj THEN thisIn /\ ~thatIn ELSE thatIn /\ ~thisIn
                IN IF isIn THEN 2 ELSE 1     \* 2 = OutIn, 1 = InOut
Fields(E, a, prev, op) ==
  LET E1 == IF prev = 0 THEN [E EXCEPT ![a].io = FALSE, ![a].oio = TRUE, ![a].pir = 0]
            ELSE LET pr == E[prev] pv == IsVertical(E, prev)
                     io == IF E[a].subj = pr.subj THEN (IF FIXED /\ pv THEN pr.io ELSE ~pr.io) ELSE ~pr.oio
                     oio == IF E[a].subj = pr.subj THEN pr.oio ELSE IF pv THEN ~pr.io ELSE pr.io
                     pir == IF pr.rt # 0 /\ ~pv THEN prev ELSE pr.pir
                 IN [E EXCEPT ![a].io = io, ![a].oio = oio, ![a].pir = pir]
      rt == IF InRes(E1[a], op) THEN Trans(E1[a], op) ELSE 0
  IN [E1 EXCEPT ![a].rt = rt]

\* ---- status line helpers ----
Pos(E, SL, a) == Cardinality({i \in 1..Len(SL) : SegCmp(E, SL[i], a) = "L"})   \* number of elements below a
IndexOf(SL, a) == CHOOSE i \in 1..Len(SL) : SL[i] = a

\* ---- inputs: all lattice triangles ----
Pts == {<<L*x, L*y>> : x \in 0..N, y \in 0..N}
Tris == { t \in Pts \X Pts \X Pts : /\ Orient(t[1],t[2],t[3]) > 0 /\ Lex(t[1],t[2]) /\ Lex(t[1],t[3]) }
TriEdges(t) == << <<t[1],t[2]>>, <<t[2],t[3]>>, <<t[3],t[1]>> >>
Ops == {"int","union","diff","xor"}

\* fill_queue for one ring given as edge sequence
RECURSIVE AddEdges(_,_,_,_)
AddEdges(E, es, subj, cid) ==
  IF es = <<>> THEN E ELSE
  LET e == Head(es) n == Len(E)
      e1 == Ev(e[1], FALSE, n+2, subj, cid)
      e2 == Ev(e[2], FALSE, n+1, subj, cid)
      E1 == E \o <<e1, e2>>
      \* `if e1 < e2 { e2.set_left } else { e1.set_left }` : e1 < e2 <=> e1 is later
      E2 == IF ~EvBefore(E1, n+1, n+2) THEN [E1 EXCEPT ![n+2].left = TRUE] ELSE [E1 EXCEPT ![n+1].left = TRUE]
  IN AddEdges(E2, Tail(es), subj, cid)

VARIABLES A, B, op, E, Q, SL, sorted, pc
vars == <<A,B,op,E,Q,SL,sorted,pc>>

BBoxMaxX(t) == Mx(Mx(t[1][1],t[2][1]),t[3][1])
BBoxMinX(t) == Mn(Mn(t[1][1],t[2][1]),t[3][1])
BBoxMaxY(t) == Mx(Mx(t[1][2],t[2][2]),t[3][2])
BBoxMinY(t) == Mn(Mn(t[1][2],t[2][2]),t[3][2])

Init == /\ A \in Tris /\ B \in Tris /\ op \in Ops
        /\ LET E0 == AddEdges(AddEdges(<<>>, TriEdges(A), TRUE, 1), TriEdges(B), FALSE, IF op = "diff" THEN 1 ELSE 2)
           IN E = E0 /\ Q = 1..Len(E0)
        /\ SL = <<>> /\ sorted = <<>>
        /\ pc = IF BBoxMinX(A) > BBoxMaxX(B) \/ BBoxMinX(B) > BBoxMaxX(A) \/ BBoxMinY(A) > BBoxMaxY(B) \/ BBoxMinY(B) > BBoxMaxY(A)
                THEN "trivial" ELSE "sweep"

Step ==
  /\ pc = "sweep" /\ Q # {}
  /\ LET e == CHOOSE x \in Q : \A y \in Q \ {x} : EvBefore(E, x, y)
         Q1 == Q \ {e}
         rb == Mn(BBoxMaxX(A), BBoxMaxX(B))
     IN /\ sorted' = Append(sorted, e)
        /\ IF (op = "int" /\ E[e].p[1] > rb) \/ (op = "diff" /\ E[e].p[1] > BBoxMaxX(A))
           THEN pc' = "done" /\ UNCHANGED <<E, SL>> /\ Q' = Q1
           ELSE IF E[e].left THEN
             LET k == Pos(E, SL, e)
                 prev == IF k >= 1 THEN SL[k] ELSE 0
                 next == IF k < Len(SL) THEN SL[k+1] ELSE 0
                 SL1 == SubSeq(SL, 1, k) \o <<e>> \o SubSeq(SL, k+1, Len(SL))
                 E1 == Fields(E, e, prev, op)
                 R1 == IF next # 0 THEN PI(E1, Q1, e, next) ELSE [ev |-> E1, q |-> Q1, code |-> 0]
                 E2 == IF R1.code = 2 THEN Fields(Fields(R1.ev, e, prev, op), next, e, op) ELSE R1.ev
                 R2 == IF prev # 0 THEN PI(E2, R1.q, prev, e) ELSE [ev |-> E2, q |-> R1.q, code |-> 0]
                 pp == IF k >= 2 THEN SL[k-1] ELSE 0
                 E3 == IF R2.code = 2 THEN Fields(Fields(R2.ev, prev, pp, op), e, prev, op) ELSE R2.ev
             IN E' = E3 /\ Q' = R2.q /\ SL' = SL1 /\ pc' = pc
           ELSE
             LET o == E[e].other IN
             IF \E i \in 1..Len(SL) : SL[i] = o THEN
               LET i == IndexOf(SL, o)
                   prev == IF i > 1 THEN SL[i-1] ELSE 0
                   next == IF i < Len(SL) THEN SL[i+1] ELSE 0
                   R == IF prev # 0 /\ next # 0 THEN PI(E, Q1, prev, next) ELSE [ev |-> E, q |-> Q1, code |-> 0]
               IN E' = R.ev /\ Q' = R.q /\ SL' = SubSeq(SL, 1, i-1) \o SubSeq(SL, i+1, Len(SL)) /\ pc' = pc
             ELSE Assert(FALSE, <<"sweep line misses event to be removed", e>>)
Finish == pc = "sweep" /\ Q = {} /\ pc' = "done" /\ UNCHANGED <<A,B,op,E,Q,SL,sorted>>
Next == (Step /\ UNCHANGED <<A,B,op>>) \/ Finish
Spec == Init /\ [][Next]_vars

\* ---- oracle (as in OracleSpike) ----
InOp(o,a,b) == CASE o = "int" -> a /\ b [] o = "union" -> a \/ b [] o = "diff" -> a /\ ~b [] o = "xor" -> a # b
BelowNV(e, m2) == /\ 2*e[1][1] <= m2[1] /\ m2[1] < 2*e[2][1]
                  /\ (e[2][1]-e[1][1])*(m2[2]-2*e[1][2]) - (e[2][2]-e[1][2])*(m2[1]-2*e[1][1]) > 0
XPts(e,f) == LET i == Intersection(e[1],e[2],f[1],f[2]) IN IF i.k = "point" THEN {i.p} ELSE {}
SegSet(t) == {Norm(TriEdges(t)[i]) : i \in 1..3}
TrueB ==
  LET SA == SegSet(A) SB == SegSet(B) EE == SA \cup SB
      V == UNION {{e[1],e[2]} : e \in EE} \cup UNION {XPts(p[1],p[2]) : p \in EE \X EE}
      Chain(e) == LET s == SetToSortSeq({p \in V : OnSeg(p,e)}, Lex) IN { <<s[i],s[i+1]>> : i \in 1..(Len(s)-1) }
      Atoms == UNION { Chain(e) : e \in EE }
      Par(X, s) == LET vert == s[1][1] = s[2][1]
                       m2 == IF vert THEN T(<<s[1][1]+s[2][1], s[1][2]+s[2][2]>>) ELSE <<s[1][1]+s[2][1], s[1][2]+s[2][2]>>
                       b == Cardinality({x \in X : LET f == IF vert THEN TE(x) ELSE x IN f[1][1] # f[2][1] /\ BelowNV(f, m2)}) % 2 = 1
                       c == Cardinality({x \in X : OnSeg(s[1], x) /\ OnSeg(s[2], x)}) % 2 = 1
                   IN <<b, b # c>>
  IN { s \in Atoms : LET pa == Par(SA,s) pb == Par(SB,s) IN InOp(op, pa[1], pb[1]) # InOp(op, pa[2], pb[2]) }

ParOf(X, s) == LET vert == s[1][1] = s[2][1]
                   m2 == IF vert THEN T(<<s[1][1]+s[2][1], s[1][2]+s[2][2]>>) ELSE <<s[1][1]+s[2][1], s[1][2]+s[2][2]>>
                   b == Cardinality({x \in X : LET f == IF vert THEN TE(x) ELSE x IN f[1][1] # f[2][1] /\ BelowNV(f, m2)}) % 2 = 1
                   c == Cardinality({x \in X : OnSeg(s[1], x) /\ OnSeg(s[2], x)}) % 2 = 1
               IN <<b, b # c>>
\* direction of the result change across every in-result, non-vertical sub-segment
M_Transition == pc = "done" =>
   \A j \in 1..Len(E) : (E[j].left /\ E[j].rt # 0 /\ E[j].p[1] # E[E[j].other].p[1]) =>
       LET s == Norm(<<E[j].p, E[E[j].other].p>>)
           pa == ParOf(SegSet(A), s) pb == ParOf(SegSet(B), s)
       IN (E[j].rt = 2) = InOp(op, pa[2], pb[2])
ResSegs == { Norm(<<E[i].p, E[E[i].other].p>>) : i \in {j \in 1..Len(E) : E[j].left /\ E[j].rt # 0} }
NRes == Cardinality({j \in 1..Len(E) : E[j].left /\ E[j].rt # 0})
M_ResultRegion == pc = "done" => (ResSegs = TrueB /\ NRes = Cardinality(TrueB))
M_EventBound == Len(sorted) <= 4*36 + 12
====
