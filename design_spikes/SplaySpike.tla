---- MODULE SplaySpike ----
\* spike: top-down splay of tree.rs transcribed; trees are <<>> or <<k, v, l, r>>
EXTENDS Integers, Sequences, FiniteSets, TLC, Json, IOUtils
Runs == ndJsonDeserialize(IOEnv.TRACEFILE)
Nil == <<>>
K(t) == t[1]  V(t) == t[2]  Lf(t) == t[3]  Rt(t) == t[4]
Mk(k,v,l,r) == <<k,v,l,r>>
SetL(t,l) == <<t[1],t[2],l,t[4]>>
SetR(t,r) == <<t[1],t[2],t[3],r>>
\* hang chain: LT nodes linked through .r, last gets `tail`
RECURSIVE ChainR(_,_), ChainL(_,_)
ChainR(LT, tail) == IF LT = <<>> THEN tail ELSE SetR(Head(LT), ChainR(Tail(LT), tail))
ChainL(RT, tail) == IF RT = <<>> THEN tail ELSE SetL(Head(RT), ChainL(Tail(RT), tail))
RECURSIVE Loop(_,_,_,_)
Loop(key, node, LT, RT) ==
  IF key = K(node) THEN <<node, LT, RT>>
  ELSE IF key < K(node) THEN
     IF Lf(node) = Nil THEN <<node, LT, RT>>
     ELSE LET left == Lf(node) IN
          IF key < K(left) THEN
             LET rot == Mk(K(left), V(left), Nil, SetL(node, Rt(left))) IN
             IF Lf(left) = Nil THEN <<rot, LT, RT>> ELSE Loop(key, Lf(left), LT, Append(RT, rot))
          ELSE Loop(key, left, LT, Append(RT, SetL(node, Nil)))
  ELSE
     IF Rt(node) = Nil THEN <<node, LT, RT>>
     ELSE LET right == Rt(node) IN
          IF key > K(right) THEN
             LET rot == Mk(K(right), V(right), SetR(node, Lf(right)), Nil) IN
             IF Rt(right) = Nil THEN <<rot, LT, RT>> ELSE Loop(key, Rt(right), Append(LT, rot), RT)
          ELSE Loop(key, right, Append(LT, SetR(node, Nil)), RT)
Splay(key, t) == LET x == Loop(key, t, <<>>, <<>>) n == x[1]
                 IN Mk(K(n), V(n), ChainR(x[2], Lf(n)), ChainL(x[3], Rt(n)))
\* abstract content
RECURSIVE Keys(_), Size(_), MinK(_), MaxK(_)
Keys(t) == IF t = Nil THEN {} ELSE Keys(Lf(t)) \cup {K(t)} \cup Keys(Rt(t))
Size(t) == IF t = Nil THEN 0 ELSE 1 + Size(Lf(t)) + Size(Rt(t))
MinK(t) == IF Lf(t) = Nil THEN K(t) ELSE MinK(Lf(t))
MaxK(t) == IF Rt(t) = Nil THEN K(t) ELSE MaxK(Rt(t))
RECURSIVE IsBST(_,_,_)
IsBST(t, lo, hi) == t = Nil \/ (lo < K(t) /\ K(t) < hi /\ IsBST(Lf(t), lo, K(t)) /\ IsBST(Rt(t), K(t), hi))
RECURSIVE ValOf(_,_)
ValOf(t,k) == IF t = Nil THEN -1 ELSE IF k = K(t) THEN V(t) ELSE IF k < K(t) THEN ValOf(Lf(t),k) ELSE ValOf(Rt(t),k)
SetMin(S) == CHOOSE x \in S : \A y \in S : x <= y
SetMax(S) == CHOOSE x \in S : \A y \in S : x >= y

\* implementation-level step: returns <<tree', ret>>
Do(t, e) ==
  LET k == e.k IN
  CASE e.op = "insert" ->
         IF t = Nil THEN <<Mk(k, e.v, Nil, Nil), -1>>
         ELSE LET s == Splay(k, t) IN
              IF k = K(s) THEN <<Mk(k, e.v, Lf(s), Rt(s)), V(s)>>
              ELSE IF k < K(s) THEN <<Mk(k, e.v, Lf(s), SetL(s, Nil)), -1>>
              ELSE <<Mk(k, e.v, SetR(s, Nil), Rt(s)), -1>>
    [] e.op = "remove" ->
         IF t = Nil THEN <<Nil, -1>>
         ELSE LET s == Splay(k, t) IN
              IF k # K(s) THEN <<s, -1>>
              ELSE IF Lf(s) = Nil THEN <<Rt(s), V(s)>>
              ELSE <<SetR(Splay(k, Lf(s)), Rt(s)), V(s)>>
    [] e.op = "get" -> IF t = Nil THEN <<Nil, -1>> ELSE LET s == Splay(k, t) IN <<s, IF K(s) = k THEN V(s) ELSE -1>>
    [] e.op = "next" -> IF t = Nil THEN <<Nil, -1>> ELSE LET s == Splay(k, t) g == {x \in Keys(s) : x > k} IN <<s, IF g = {} THEN -1 ELSE SetMin(g)>>
    [] e.op = "prev" -> IF t = Nil THEN <<Nil, -1>> ELSE LET s == Splay(k, t) g == {x \in Keys(s) : x < k} IN <<s, IF g = {} THEN -1 ELSE SetMax(g)>>
    [] e.op = "min" -> <<t, IF t = Nil THEN -1 ELSE MinK(t)>>
    [] e.op = "max" -> <<t, IF t = Nil THEN -1 ELSE MaxK(t)>>

\* abstract (SortedMap) expectation of the return value, from the abstract content only
AbsRet(t, e) ==
  LET S == Keys(t) k == e.k IN
  CASE e.op = "insert" -> ValOf(t,k) [] e.op = "remove" -> ValOf(t,k) [] e.op = "get" -> ValOf(t,k)
    [] e.op = "next" -> (LET g == {x \in S : x > k} IN IF g = {} THEN -1 ELSE SetMin(g))
    [] e.op = "prev" -> (LET g == {x \in S : x < k} IN IF g = {} THEN -1 ELSE SetMax(g))
    [] e.op = "min" -> (IF S = {} THEN -1 ELSE SetMin(S)) [] e.op = "max" -> (IF S = {} THEN -1 ELSE SetMax(S))

VARIABLES r, l, tree, bad
vars == <<r,l,tree,bad>>
Init == r \in 1..Len(Runs) /\ l = 1 /\ tree = Nil /\ bad = "no"
\* the tree the implementation reports is adopted as the next state, so that one drift does not hide the rest
Step == /\ l <= Len(Runs[r].events) /\ bad = "no"
        /\ LET e == Runs[r].events[l] d == Do(tree, e)
               okP == e.ret = AbsRet(tree, e) /\ e.len = Size(e.shape) /\ IsBST(e.shape, -1000, 1000)
                      /\ Keys(e.shape) = (CASE e.op = "insert" -> Keys(tree) \cup {e.k} [] e.op = "remove" -> Keys(tree) \ {e.k} [] OTHER -> Keys(tree))
               okM == d[1] = e.shape /\ d[2] = e.ret
           IN /\ bad' = IF ~okP THEN "contract" ELSE IF ~okM THEN "mechanism" ELSE "no"
              /\ tree' = e.shape
        /\ l' = l + 1 /\ r' = r
Done == (l > Len(Runs[r].events) \/ bad # "no") /\ UNCHANGED vars
Next == Step \/ Done
C17_Contract == bad # "contract"
M_NoDrift == bad # "mechanism"
Spec == Init /\ [][Next]_vars
BST == IsBST(tree, -1000, 1000)
====
